"""C20 -- computed PLL/clock configurations meet the request and the device limits.

Decided (structural, necessary): G1 every searched variable that ends up in the configuration ranges
over a declared range attribute (frozen, reasoned exceptions); G2 every declared divider / PFD / VCO
range attribute is consulted on the way to the returned configuration; G3 a configuration is returned
only on paths that passed the VCO (and PFD) window test and a margin test per output (path analysis with
constant-flag pruning); G4 every margin test has the form |f' - f| <= f*m on the requested frequency and
margin of the output; G5 configuration keys read when emitting the primitive are written by the search and
each primitive parameter takes the key whose name tokens it contains (vendor alias table).
Not decided: completeness of the search, the recomputed frequencies themselves."""
import ast
import os
import re
from ..core import AnalysisError, norm, walk_no_nested
from .. import pathx as P

D = "litex/soc/cores/clock/"

EXPLANATION = ("Plain-Python analysis of the clocking helpers: loop iterables resolved by def-use to declared "
               "*_range attributes; attribute read sets of compute_config against the declared range attributes of the "
               "class hierarchy; path enumeration with constant-flag pruning for return => window & margin tests; "
               "normal form of the margin comparison; writer/reader agreement of configuration keys and parameter "
               "names by token containment.")
TECHNIQUE = "def-use on loop iterables + attribute read sets + path must-pass-through + normal-form/twin comparison"

# (file, class owning compute_config, [classes whose declared ranges it must consult])
SEARCHES = [
    ("xilinx_common.py", "XilinxClocking", [("xilinx_s7.py", "S7PLL"), ("xilinx_s7.py", "S7MMCM"), ("xilinx_s6.py", "S6PLL"),
                                             ("xilinx_s6.py", "S6DCM"), ("xilinx_us.py", "USPLL"), ("xilinx_us.py", "USMMCM"),
                                             ("xilinx_usp.py", "USPPLL")]),
    ("xilinx_usp.py", "USPMMCM", [("xilinx_usp.py", "USPMMCM")]),
    ("lattice_ecp5.py", "ECP5PLL", [("lattice_ecp5.py", "ECP5PLL")]),
    ("lattice_nx.py", "NXPLL", [("lattice_nx.py", "NXPLL")]),
    ("lattice_ice40.py", "iCE40PLL", [("lattice_ice40.py", "iCE40PLL")]),
    ("intel_common.py", "IntelClocking", [("intel_cyclone4.py", "CycloneIVPLL"), ("intel_cyclone5.py", "CycloneVPLL"),
                                          ("intel_cyclone10.py", "Cyclone10LPPLL"), ("intel_max10.py", "Max10PLL"),
                                          ("intel_stratix5.py", "StratixVPLL")]),
    ("gowin_gw1n.py", "GW1NPLL", [("gowin_gw1n.py", "GW1NPLL")]),
    ("gowin_gw5a.py", "GW5APLL", [("gowin_gw5a.py", "GW5APLL")]),
]

# range attributes that constrain the *returned configuration* (dividers, multipliers, PFD, VCO)
CONFIG_RANGE = re.compile(r"^(vco(_in|_out)?_freq_range|pfd_freq_range|clkin_pfd_freq_range|.*_div_f?range|.*_divide_f?range|"
                          r".*_mult_f?range|div[rfq]_range)$")

# G1 exceptions: (class, loop variable) -> reason
G1_EXCEPT = {
    ("USPMMCM", "clkfbout_mult"): "CLKFBOUT_MULT_F 2.0..128.0 step 0.125 (UG572), literal list",
    ("USPMMCM", "d"): "clkout0 fractional divider list (UG572) replaces the declared range for n == 0",
    ("GW1NPLL", "idiv"): "device constants of the rPLL (IDIV 1..63) hard-coded in the search",
    ("GW1NPLL", "fdiv"): "device constants of the rPLL (FBDIV 1..63) hard-coded in the search",
    ("GW1NPLL", "odiv"): "legal ODIV values of the rPLL listed literally",
    ("GW5APLL", "idiv"): "device constants of the PLLA hard-coded in the search",
    ("GW5APLL", "fdiv"): "device constants of the PLLA hard-coded in the search",
    ("GW5APLL", "mdiv"): "device constants of the PLLA hard-coded in the search",
}

# G5 alias table: (param pattern, key pattern) pairs accepted although the key's tokens are not contained in the parameter
G5_ALIAS = {
    ("clk#_multiply_by", "m"): "Intel ALTPLL: M counter is the common multiplier of every output",
    ("clkfx_multiply", "clkfbout_mult"): "Spartan-6 DCM_CLKGEN naming",
    ("clkfx_divide", "clkout0_divide"): "Spartan-6 DCM_CLKGEN naming (divide = clkout0_divide * divclk_divide)",
    ("clkfx_divide", "divclk_divide"): "Spartan-6 DCM_CLKGEN naming (divide = clkout0_divide * divclk_divide)",
    ("divf", "clkfb_div"): "Nexus PLL: DIVF/DELF hold feedback divider - 1",
    ("delf", "clkfb_div"): "Nexus PLL: DIVF/DELF hold feedback divider - 1",
    ("refin_reset", "clki_div"): "Nexus PLL: reference divider",
    ("ref_mmd_dig", "clki_div"): "Nexus PLL: reference divider",
    ("fbk_mmd_dig", "clkfb_div"): "Nexus PLL: feedback divider",
    ("feedbk_path", "clkfb"): "ECP5 EHXPLLL: feedback path names the output chosen as feedback",
    ("clko#_fphase", "clko#_div"): "ECP5: fine/coarse phase are computed from the requested phase and the divider",
    ("clko#_cphase", "clko#_div"): "ECP5: fine/coarse phase are computed from the requested phase and the divider",
    ("div#", "clko#_div"): "Nexus PLL: DIVA..DIVF hold output divider - 1",
    ("del#", "clko#_div"): "Nexus PLL: DELA..DELF derive from phase and output divider",
}

# G2 exceptions: (class, attribute) -> reason
G2_EXCEPT = {
    ("USPMMCM", "clkfbout_mult_frange"): "inherited default of the generic Xilinx search; USPMMCM overrides compute_config and "
                                         "searches the UG572 fractional list 2.0..128.0 instead (G1 exception)",
}


def _class_chain(ctx, rel, cname):
    """[(mod, ClassDef)] for cname and its bases found in the clock package."""
    out = []
    todo = [(rel, cname)]
    seen = set()
    while todo:
        r, c = todo.pop(0)
        if (r, c) in seen:
            continue
        seen.add((r, c))
        m = ctx.mod(D + r)
        if c not in m.classes:
            continue
        cn = m.classes[c]
        out.append((m, cn))
        for b in cn.bases:
            bn = b.id if isinstance(b, ast.Name) else None
            if bn is None:
                continue
            if bn in m.classes:
                todo.append((r, bn))
            else:
                for other in ("xilinx_common.py", "intel_common.py", "gowin_gw1n.py", "efinix.py"):
                    if ctx.exists(D + other) and bn in ctx.mod(D + other).classes:
                        todo.append((other, bn))
    return out


def _declared_ranges(chain):
    """attribute name -> node, for class-level and self.<x> = ... declarations ending in range."""
    out = {}
    for m, cn in chain:
        for st in cn.body:
            if isinstance(st, ast.Assign):
                for t in st.targets:
                    if isinstance(t, ast.Name) and t.id.endswith("range"):
                        out.setdefault(t.id, (m, st))
        for fn in cn.body:
            if isinstance(fn, ast.FunctionDef) and fn.name == "__init__":
                for st in ast.walk(fn):
                    if isinstance(st, ast.Assign):
                        for t in st.targets:
                            if isinstance(t, ast.Attribute) and isinstance(t.value, ast.Name) and t.value.id == "self" \
                                    and t.attr.endswith("range"):
                                out.setdefault(t.attr, (m, st))
    return out


def _self_reads(fn):
    """(exact attribute names, regex patterns from getattr(self, fmt)) read in fn."""
    names, pats = set(), []
    for n in ast.walk(fn):
        if isinstance(n, ast.Attribute) and isinstance(n.value, ast.Name) and n.value.id == "self":
            names.add(n.attr)
        if isinstance(n, ast.Call) and isinstance(n.func, ast.Name) and n.func.id == "getattr" and len(n.args) >= 2 and \
                isinstance(n.args[0], ast.Name) and n.args[0].id == "self":
            k = _key_pattern(n.args[1])
            if k is not None:
                if "#" in k:
                    pats.append(re.compile("^" + re.escape(k).replace("\\#", r"\d+") + "$"))
                else:
                    names.add(k)
    return names, pats


def _key_pattern(e):
    """'clkout#_divide' for "clkout{}_divide".format(n) / f"clkout{n}_divide" / "odiv%d" % n / literal."""
    if isinstance(e, ast.Constant) and isinstance(e.value, str):
        return e.value
    if isinstance(e, ast.JoinedStr):
        s = ""
        for v in e.values:
            if isinstance(v, ast.Constant):
                s += str(v.value)
            else:
                s += "#"
        return s
    if isinstance(e, ast.Call) and isinstance(e.func, ast.Attribute) and e.func.attr == "format" and \
            isinstance(e.func.value, ast.Constant) and isinstance(e.func.value.value, str):
        return re.sub(r"\{[^}]*\}", "#", e.func.value.value)
    if isinstance(e, ast.BinOp) and isinstance(e.op, ast.Mod) and isinstance(e.left, ast.Constant) and \
            isinstance(e.left.value, str):
        return re.sub(r"%[ds]", "#", e.left.value)
    return None


def _local_defs(fn):
    d = {}
    for n in walk_no_nested(fn):
        if isinstance(n, ast.Assign):
            for t in n.targets:
                if isinstance(t, ast.Name):
                    d.setdefault(t.id, []).append(n.value)
                elif isinstance(t, ast.Tuple):
                    for x in t.elts:
                        if isinstance(x, ast.Name):
                            d.setdefault(x.id, []).append(n.value)
        elif isinstance(n, ast.AugAssign) and isinstance(n.target, ast.Name):
            d.setdefault(n.target.id, []).append(n.value)
        elif isinstance(n, ast.Expr) and isinstance(n.value, ast.Call) and isinstance(n.value.func, ast.Attribute) and \
                n.value.func.attr in ("extend", "append") and isinstance(n.value.func.value, ast.Name):
            d.setdefault(n.value.func.value.id, []).extend(n.value.args)
        elif isinstance(n, ast.For):
            for x in ast.walk(n.target):
                if isinstance(x, ast.Name):
                    d.setdefault(x.id, []).append(n.iter)
    return d


def _declared_sources(e, defs, depth=0, seen=None):
    """set of self.<x>range attribute names (or getattr patterns) an iterable expression is derived from."""
    seen = seen if seen is not None else set()
    out = set()
    for n in ast.walk(e):
        if isinstance(n, ast.Attribute) and isinstance(n.value, ast.Name) and n.value.id == "self" and n.attr.endswith("range"):
            out.add(n.attr)
        if isinstance(n, ast.Call) and isinstance(n.func, ast.Name) and n.func.id == "getattr" and len(n.args) >= 2:
            k = _key_pattern(n.args[1])
            if k and k.endswith("range"):
                out.add(k)
        if isinstance(n, ast.Name) and n.id in defs and n.id not in seen and depth < 4:
            seen.add(n.id)
            for v in defs[n.id]:
                out |= _declared_sources(v, defs, depth + 1, seen)
    return out


def _config_names(fn):
    """names of locals that hold the configuration dict(s)."""
    names = set()
    for n in walk_no_nested(fn):
        if isinstance(n, ast.Assign) and isinstance(n.value, ast.Dict):
            for t in n.targets:
                if isinstance(t, ast.Name):
                    names.add(t.id)
        if isinstance(n, ast.AnnAssign) and isinstance(n.value, ast.Dict) and isinstance(n.target, ast.Name):
            names.add(n.target.id)
    return names


def _config_writes(fn):
    """[(key pattern, value expr, node)] for config[...] = v and dict literals stored/appended as configs."""
    cfg = _config_names(fn) | {"config"}
    out = []
    for n in walk_no_nested(fn):
        if isinstance(n, ast.Assign):
            for t in n.targets:
                if isinstance(t, ast.Subscript) and isinstance(t.value, ast.Name) and t.value.id in cfg:
                    k = _key_pattern(t.slice)
                    out.append((k, n.value, n))
        if isinstance(n, ast.Dict):
            for k, v in zip(n.keys, n.values):
                if k is not None:
                    kp = _key_pattern(k)
                    if kp is not None:
                        out.append((kp, v, n))
    return out


def _range_sense(test, var_pred):
    """+1: test true => var inside a closed window (lower and upper bound present); -1: test true => outside;
    0: not a window test on var."""
    sign = 1
    t = test
    while isinstance(t, ast.UnaryOp) and isinstance(t.op, ast.Not):
        t, sign = t.operand, -sign

    def bounds(c):
        """('lo'|'hi') list for a Compare constraining var"""
        out = []
        items = [c.left] + list(c.comparators)
        for i, op in enumerate(c.ops):
            a, b = items[i], items[i + 1]
            if var_pred(a) and not var_pred(b):
                if isinstance(op, (ast.GtE, ast.Gt)):
                    out.append("lo")
                elif isinstance(op, (ast.LtE, ast.Lt)):
                    out.append("hi")
            elif var_pred(b) and not var_pred(a):
                if isinstance(op, (ast.LtE, ast.Lt)):
                    out.append("lo")
                elif isinstance(op, (ast.GtE, ast.Gt)):
                    out.append("hi")
        return out
    if isinstance(t, ast.Compare):
        b = bounds(t)
        if "lo" in b and "hi" in b:
            return sign
        return 0
    if isinstance(t, ast.BoolOp):
        bs = []
        for v in t.values:
            while isinstance(v, ast.UnaryOp) and isinstance(v.op, ast.Not):
                return 0
            if isinstance(v, ast.Compare):
                bs.extend(bounds(v))
        if "lo" in bs and "hi" in bs:
            if isinstance(t.op, ast.And):
                return sign          # lo <= v and v <= hi
            # (v < lo) or (v > hi): "lo"/"hi" here are mis-named: v < lo gives 'hi' by the table above
            return -sign
    return 0


def _bound_facts(tests, var_pred):
    """{'lo', 'hi'} facts about var established by the atomic test events `tests` ([(test, polarity)]): 'lo' -- var is bounded from
    below (x <= var holds), 'hi' -- from above.  Only the last outcome of each test node counts."""
    last = {}
    for t, pol in tests:
        while isinstance(t, ast.UnaryOp) and isinstance(t.op, ast.Not):
            t, pol = t.operand, not pol
        if not (isinstance(t, ast.Compare) and len(t.ops) == 1 and isinstance(t.ops[0], (ast.Lt, ast.LtE, ast.Gt, ast.GtE))):
            continue
        a, b, op = t.left, t.comparators[0], t.ops[0]
        if var_pred(a) and not var_pred(b):
            kind = "hi" if isinstance(op, (ast.Lt, ast.LtE)) else "lo"
        elif var_pred(b) and not var_pred(a):
            kind = "lo" if isinstance(op, (ast.Lt, ast.LtE)) else "hi"
        else:
            continue
        last[id(t)] = kind if pol else ("lo" if kind == "hi" else "hi")
    return set(last.values())


def _has_window(fn, var_pred):
    """the function compares var against a lower and an upper limit somewhere"""
    n = 0
    for t in walk_no_nested(fn):
        if isinstance(t, ast.Compare):
            items = [t.left] + list(t.comparators)
            for i, op in enumerate(t.ops):
                if isinstance(op, (ast.Lt, ast.LtE, ast.Gt, ast.GtE)) and (var_pred(items[i]) != var_pred(items[i + 1])):
                    n += 1
    return n >= 2


def _mentions(e, names):
    return any(isinstance(n, ast.Name) and n.id in names for n in ast.walk(e))


def _margin_tests(fn, defs):
    """[(Compare node, sense, ok_form, detail)] for every acceptance test |f' - f| <= f*m."""
    out = []
    # requested frequency / margin variables: from `for n, (clk, f, p, m[, ..]) in ...self.clkouts.items()`
    fvars, mvars = set(), set()
    for n in walk_no_nested(fn):
        if isinstance(n, ast.For) and "self.clkouts" in norm(n.iter) and isinstance(n.target, ast.Tuple) and \
                len(n.target.elts) == 2 and isinstance(n.target.elts[1], ast.Tuple) and len(n.target.elts[1].elts) >= 4:
            tup = n.target.elts[1].elts
            if isinstance(tup[1], ast.Name):
                fvars.add(tup[1].id)
            if isinstance(tup[3], ast.Name):
                mvars.add(tup[3].id)
    # gowin: freq_max, m = max([...])
    for k in ("freq_max",):
        if k in defs:
            fvars.add(k)
            mvars.add("m")
    for n in walk_no_nested(fn):
        is_close = isinstance(n, ast.Call) and norm(n.func) in ("math.isclose", "isclose")
        if is_close:
            out.append((n, 0, False, "math.isclose(rel_tol=m) is relative to the larger operand, not to the requested frequency"))
            continue
        if not isinstance(n, ast.Compare) or len(n.ops) != 1:
            continue
        l, op, r = n.left, n.ops[0], n.comparators[0]
        # left: abs(a - b) or a local defined as abs(a - b) [/ f]
        def absdiff(e):
            if isinstance(e, ast.Call) and isinstance(e.func, ast.Name) and e.func.id == "abs" and len(e.args) == 1 and \
                    isinstance(e.args[0], ast.BinOp) and isinstance(e.args[0].op, ast.Sub):
                return e.args[0], False
            if isinstance(e, ast.BinOp) and isinstance(e.op, ast.Div):
                a, _ = absdiff(e.left)
                if a is not None and isinstance(e.right, ast.Name) and e.right.id in fvars:
                    return a, True
            return None, False
        def side(e):
            a, rl = absdiff(e)
            if a is None and isinstance(e, ast.Name) and e.id in defs:
                for v in defs[e.id]:
                    a, rl = absdiff(v)
                    if a is not None:
                        break
            return a, rl
        lhs, rel = side(l)
        if lhs is None:
            # the deviation on the right-hand side (`f*m < abs(..)`, the canonical reading of `abs(..) > f*m`): mirror the test
            lhs, rel = side(r)
            if lhs is None:
                continue
            l, r = r, l
            op = {ast.Lt: ast.Gt, ast.LtE: ast.GtE, ast.Gt: ast.Lt, ast.GtE: ast.LtE}.get(type(op), type(op))()
        if not (_mentions(lhs, fvars)):
            continue
        if not (_mentions(r, fvars) or _mentions(r, mvars)):
            continue        # e.g. `diff < best_diff`: best-candidate selection, not an acceptance test
        # right: f*m (absolute form) or m (relative form)
        ok = False
        if rel:
            ok = isinstance(r, ast.Name) and r.id in mvars
        else:
            ok = isinstance(r, ast.BinOp) and isinstance(r.op, ast.Mult) and \
                ((isinstance(r.left, ast.Name) and r.left.id in fvars and isinstance(r.right, ast.Name) and r.right.id in mvars) or
                 (isinstance(r.right, ast.Name) and r.right.id in fvars and isinstance(r.left, ast.Name) and r.left.id in mvars))
        sense = 1 if isinstance(op, (ast.LtE, ast.Lt)) else (-1 if isinstance(op, (ast.Gt, ast.GtE)) else 0)
        strict_ok = isinstance(op, (ast.LtE, ast.Gt))
        out.append((n, sense, ok and sense != 0, "" if ok else f"right-hand side `{norm(r)}` is not requested_frequency*margin"))
    return out


def _none_or_number_slots(fn):
    """{slot: [(test node, 'none'|'truth')]} for names / constant-key slots assigned None somewhere and a non-boolean,
    non-None, non-collection value elsewhere in `fn`."""
    none_as, num_as = set(), set()
    for n in ast.walk(fn):
        if isinstance(n, ast.Assign):
            for t in n.targets:
                k = P._key_of_target(t)
                if not k:
                    continue
                v = n.value
                if isinstance(v, ast.Constant) and v.value is None:
                    none_as.add(k)
                elif isinstance(v, ast.Constant) and isinstance(v.value, bool):
                    pass
                elif isinstance(v, (ast.Dict, ast.List, ast.Set, ast.Tuple, ast.ListComp, ast.DictComp, ast.JoinedStr)) or \
                        (isinstance(v, ast.Constant) and isinstance(v.value, str)):
                    pass
                elif isinstance(v, ast.Call) and norm(v.func) in ("dict", "list", "set", "sorted", "str"):
                    pass
                else:
                    num_as.add(k)
    slots = none_as & num_as
    out = {k: [] for k in slots}

    def is_slot(e):
        if isinstance(e, ast.Name) and e.id in slots:
            return e.id
        if isinstance(e, ast.Subscript) and isinstance(e.slice, ast.Constant) and norm(e) in slots:
            return norm(e)
        return None

    def truth_ctx(e):          # e is evaluated for its truth value
        k = is_slot(e)
        if k:
            out[k].append((e, "truth"))
        elif isinstance(e, ast.UnaryOp) and isinstance(e.op, ast.Not):
            truth_ctx(e.operand)
        elif isinstance(e, ast.BoolOp):
            for v in e.values:
                truth_ctx(v)
    for n in ast.walk(fn):
        if isinstance(n, (ast.If, ast.While, ast.IfExp, ast.Assert)):
            truth_ctx(n.test)
        elif isinstance(n, ast.comprehension):
            for c in n.ifs:
                truth_ctx(c)
        if isinstance(n, ast.Compare) and len(n.ops) == 1 and isinstance(n.ops[0], (ast.Is, ast.IsNot, ast.Eq, ast.NotEq)) and \
                isinstance(n.comparators[0], ast.Constant) and n.comparators[0].value is None:
            k = is_slot(n.left)
            if k:
                out[k].append((n, "none"))
    return out


def _g11(ctx):
    rel = D + "efinix.py"
    m = ctx.mod(rel)
    fn = m.method("EFINIXPLL", "compute_config")
    outs = [n for n in ast.walk(fn) if isinstance(n, ast.For) and "clks_out" in norm(n.iter) and isinstance(n.target, ast.Tuple) and
            len(n.target.elts) == 2 and all(isinstance(t, ast.Name) for t in n.target.elts)]
    # the loop that searches a divider per output: it contains a loop over divider candidates whose body divides by the candidate
    found = []
    for lp in outs:
        cfg = lp.target.elts[1].id
        for inner in [x for x in ast.walk(lp) if isinstance(x, ast.For) and x is not lp and isinstance(x.target, ast.Name)]:
            cx = inner.target.id
            if not any(isinstance(b, ast.BinOp) and isinstance(b.op, ast.Div) and norm(b.right) == cx for b in ast.walk(inner)):
                continue
            src = inner.iter
            if isinstance(src, ast.Name):
                defs = [a.value for a in ast.walk(lp) if isinstance(a, ast.Assign) and len(a.targets) == 1 and norm(a.targets[0]) == src.id and
                        a.lineno < inner.lineno]
                src_e = defs[-1] if defs else None
            else:
                src_e = src
            found.append((lp, inner, cfg, src_e))
    ctx.ob("G11", rel, "EFINIXPLL.compute_config", "per-output divider search:present", len(found) == 1,
           f"{len(found)} loops over divider candidates inside the loop over the outputs (anchor changed)", fn)
    for lp, inner, cfg, src_e in found:
        ok = src_e is not None and any(isinstance(c, ast.Call) and norm(c.func).endswith("get_c_range") and
                                       any(cfg in {x.id for x in ast.walk(a) if isinstance(x, ast.Name)} and "phase" in norm(a) for a in c.args)
                                       for c in ast.walk(src_e))
        ctx.ob("G11", rel, "EFINIXPLL.compute_config", "divider candidates = get_c_range(device, this output's phase)", ok,
               "" if ok else f"`for {inner.target.id} in {norm(inner.iter)}` iterates {norm(src_e) if src_e is not None else 'a list defined outside the output loop'}: "
                             f"not the dividers legal for {cfg}['phase'] -- a phase-shifted output gets a divider the device does not offer at that "
                             f"phase, or a legal request is refused", inner)


def _g10(ctx):
    from .. import pyconst
    rel = D + "xilinx_usp.py"
    m = ctx.mod(rel)
    fn = m.method("USPMMCM", "compute_config")
    cm = ctx.mod(D + "common.py")
    xc = ctx.mod(D + "xilinx_common.py")
    funcs = {n.name: n for mod in (cm, xc, m) for n in mod.tree.body if isinstance(n, ast.FunctionDef)}
    # class-level constants of USPMMCM and its base
    me = pyconst.NS()
    for cnode in (xc.cls("XilinxClocking"), m.cls("USPMMCM")):
        it0 = pyconst.Interp(funcs=funcs)
        it0.run([st for st in cnode.body if isinstance(st, (ast.Assign, ast.AnnAssign))])
        me.update({k: v for k, v in it0.env.items() if v is not pyconst.UNKNOWN})
    it = pyconst.Interp({"self": me}, funcs=funcs)
    try:
        it.run(fn.body)
    except Exception as ex:
        ctx.need(False, f"USPMMCM.compute_config cannot be interpreted: {ex}")
    grid = [x / 8 for x in range(16, 1025)]

    def judge(role, vals, node):
        ok = vals is not pyconst.UNKNOWN and vals is not None
        detail = ""
        if not ok:
            detail = "the list of values is not a compile-time constant any more (rule cannot decide)"
            ctx.need(False, f"USPMMCM.compute_config: {role}: {detail}")
        vals = [float(v) for v in vals]
        off = [v for v in vals if not (2.0 <= v <= 128.0) or (v * 8) != int(v * 8)]
        ends = (2.0 in vals) and (128.0 in vals)
        ok = not off and ends and sorted(set(vals)) == grid
        ctx.ob("G10", rel, "USPMMCM.compute_config", role, ok,
               "" if ok else (f"{len(off)} values outside 2.0 .. 128.0 / off the 1/8 grid are tried (e.g. {off[:3]} .. {off[-1:]}): a returned "
                              f"configuration can carry a multiplier / divider the primitive does not have" if off else
                              f"the documented range is not covered (min {min(vals) if vals else None}, max {max(vals) if vals else None}, "
                              f"{len(set(vals))} of {len(grid)} grid points): legal requests are refused"), node)
    mults = [n for n in ast.walk(fn) if isinstance(n, ast.Assign) and norm(n.targets[0]) == "clkfbout_mult_f_values"]
    ctx.need(len(mults) == 1, "USPMMCM.compute_config: clkfbout_mult_f_values is no longer assigned once (anchor changed)")
    judge("CLKFBOUT_MULT_F values = 2.0 .. 128.0 step 0.125", it.env.get("clkfbout_mult_f_values", pyconst.UNKNOWN), mults[0])
    d0 = []
    for n in ast.walk(fn):
        if isinstance(n, ast.If) and pathx_canon(n.test) == pathx_canon("n == 0"):
            d0 += [st for st in n.body if isinstance(st, ast.Assign) and norm(st.targets[0]) == "dividers"]
    ctx.need(len(d0) == 1, "USPMMCM.compute_config: `if n == 0: dividers = ...` not found (anchor changed)")
    v = it.ev(d0[0].value)
    if isinstance(v, pyconst.Gen):
        v = list(v)
    judge("CLKOUT0_DIVIDE_F values = 2.0 .. 128.0 step 0.125", v, d0[0])


def pathx_canon(t):
    from ..pathx import canon_test
    return canon_test(t)


def _declared_range(ctx, classes, stem):
    """(lo, hi) of the range attribute declared for configuration entry `stem` (clkout_divide -> clkout_divide_range / _frange), the
    instance assignment in __init__ taking precedence over the class attribute, the first class of `classes` over the next; the
    tuple is evaluated by the checker's interpreter.  None when nothing is declared or it is not a constant pair."""
    from .. import pyconst
    for rel, cls in classes:
        m = ctx.mod(rel)
        cdef = m.classes.get(cls)
        if cdef is None:
            continue
        found = None
        for nm in (stem + "_range", stem + "_frange"):
            for st in cdef.body:
                if isinstance(st, ast.Assign) and any(isinstance(t, ast.Name) and t.id == nm for t in st.targets):
                    found = st.value
            for fn in cdef.body:
                if isinstance(fn, ast.FunctionDef) and fn.name == "__init__":
                    for st in ast.walk(fn):
                        if isinstance(st, ast.Assign) and any(norm(t) == "self." + nm for t in st.targets):
                            found = st.value
        if found is not None:
            v = pyconst.Interp().ev(found)
            if isinstance(v, (tuple, list)) and len(v) == 2 and all(isinstance(x, (int, float)) for x in v):
                return (v[0], v[1])
            return None
    return None


def _g12(ctx):
    import os
    n = 0
    for fname in sorted(os.listdir(os.path.join(ctx.repo, D))):
        if not fname.endswith(".py") or fname.startswith("__"):
            continue
        m = ctx.mod(D + fname)
        for cname, cdef in m.classes.items():
            for fn in cdef.body:
                if not (isinstance(fn, ast.FunctionDef) and fn.name in ("create_clkout", "register_clkin")):
                    continue
                out_side = fn.name == "create_clkout"
                for x in ast.walk(fn):
                    if isinstance(x, ast.Attribute) and isinstance(x.ctx, ast.Load) and norm(x.value) == "self" and x.attr.endswith("freq_range"):
                        is_in = bool(re.match(r"clk_?i(n)?_", x.attr))
                        is_out = bool(re.match(r"clk_?o(ut)?_", x.attr))
                        ok = not (is_in if out_side else is_out)
                        n += 1
                        ctx.ob("G12", D + fname, f"{cname}.{fn.name}", f"reads self.{x.attr}", ok,
                               "" if ok else f"{fn.name} tests the {'requested output' if out_side else 'input'} frequency against self.{x.attr}, the "
                                             f"{'input' if out_side else 'output'}-side range: requests legal for the device are refused (and illegal "
                                             f"ones admitted)", x)
    return n


def _g13(ctx):
    """Helpers that serve several independently requested outputs keep one request record per output (`self.<x>_clk_out`); inside
    the `if self.<x>_clk_out:` block of do_finalize the frequency / margin that produce that output's divider are read from the same
    record (a block that reads another output's record emits that output's divider -- or fails when only one was requested)."""
    import os
    n = 0
    for fname in sorted(os.listdir(os.path.join(ctx.repo, D))):
        if not fname.endswith(".py") or fname.startswith("__"):
            continue
        m = ctx.mod(D + fname)
        for cname, cdef in m.classes.items():
            fin = [f for f in cdef.body if isinstance(f, ast.FunctionDef) and f.name == "do_finalize"]
            if not fin:
                continue
            for blk in [x for x in ast.walk(fin[0]) if isinstance(x, ast.If)]:
                t = blk.test
                rec = None
                for cand in ast.walk(t):
                    if isinstance(cand, ast.Attribute) and norm(cand.value) == "self" and cand.attr.endswith("clk_out"):
                        rec = cand.attr
                if rec is None:
                    continue
                others = sorted({norm(x.value) for b in blk.body for x in ast.walk(b)
                                 if isinstance(x, ast.Subscript) and isinstance(x.value, ast.Attribute) and norm(x.value.value) == "self" and
                                 x.value.attr.endswith("clk_out") and x.value.attr != rec})
                n += 1
                ctx.ob("G13", D + fname, f"{cname}.do_finalize", f"the {rec} block reads its own request record", not others,
                       "" if not others else f"the block that emits the `{rec}` output reads {others}: its divider is computed for another "
                                             f"output's request (and fails when that output was not requested)", blk)
    return n


_BOUND = re.compile(r"(^|[^a-z])(vco|pfd|vco_in|vco_out|clkin|clko|clkout|clki)\w*_freq_(min|max)\b|\b(pfd|vco)_freq_(min|max)\b")


def _g14(ctx):
    """A declared window is closed: a frequency exactly on the declared minimum / maximum is inside it.  Every test of a computed
    frequency against a window bound in the search routines accepts with a non-strict comparison and rejects (continue / break /
    flag = False / raise) with a strict one -- the form all sibling helpers use.  A strict acceptance (or a non-strict rejection,
    e.g. an early `break` on `>= max`) refuses requests whose only legal settings sit on the edge of the window."""
    import os
    n = 0

    def rejecting(body):
        ok = True
        for st in body:
            if isinstance(st, (ast.Continue, ast.Break, ast.Raise)):
                continue
            if isinstance(st, ast.Assign) and isinstance(st.value, ast.Constant) and st.value.value is False:
                continue
            ok = False
        return ok and bool(body)

    def pairs(t):
        """(left, op, right) of every simple comparison in a test, chained comparisons split"""
        out = []
        for c in ast.walk(t):
            if isinstance(c, ast.Compare):
                l = c.left
                for op, r in zip(c.ops, c.comparators):
                    out.append((l, op, r))
                    l = r
        return out
    for fname in sorted(os.listdir(os.path.join(ctx.repo, D))):
        if not fname.endswith(".py") or fname.startswith("__"):
            continue
        m = ctx.mod(D + fname)
        for cname, cdef in m.classes.items():
            for fn in cdef.body:
                if not (isinstance(fn, ast.FunctionDef) and fn.name.startswith("compute_")):
                    continue
                for node in ast.walk(fn):
                    if not isinstance(node, ast.If):
                        continue
                    rej = rejecting(node.body)
                    for l, op, r in pairs(node.test):
                        lt, rt = norm(l), norm(r)
                        bl, br = _BOUND.search(lt), _BOUND.search(rt)
                        if bool(bl) == bool(br) or not isinstance(op, (ast.Lt, ast.LtE, ast.Gt, ast.GtE)):
                            continue
                        if not re.search(r"freq", rt if bl else lt):
                            continue
                        bound_txt = lt if bl else rt
                        is_max = "_max" in bound_txt
                        # orientation: var <op> bound
                        o = op
                        if bl:      # bound <op> var  ->  var <flipped op> bound
                            o = {ast.Lt: ast.Gt, ast.LtE: ast.GtE, ast.Gt: ast.Lt, ast.GtE: ast.LtE}[type(op)]()
                        strict = isinstance(o, (ast.Lt, ast.Gt))
                        inward = isinstance(o, (ast.Lt, ast.LtE)) if is_max else isinstance(o, (ast.Gt, ast.GtE))
                        # inward comparison (var <= max / var >= min) is an acceptance term, outward (var > max / var < min) a rejection term
                        negated = any(isinstance(u, ast.UnaryOp) and isinstance(u.op, ast.Not) and any(c is l or c is r for c in ast.walk(u))
                                      for u in ast.walk(node.test))
                        accept_term = inward != negated if True else inward
                        ok = (not strict) if inward else strict
                        n += 1
                        ctx.ob("G14", D + fname, f"{cname}.{fn.name}", f"window test `{norm(ast.Compare(left=l, ops=[op], comparators=[r]))}` keeps the bound inside", ok,
                               "" if ok else f"`{lt} {type(op).__name__} {rt}` {'accepts only strictly inside' if inward else 'rejects / stops at'} the declared "
                                             f"{'maximum' if is_max else 'minimum'}: a setting exactly on the edge of the declared range is refused although "
                                             f"it is legal (sibling helpers keep the bound inside)", node)
    return n


def _g16(ctx):
    """Request record layout: every reader of self.clkouts unpacks (signal, frequency, phase, margin[, ..]) by position (G4 reads the
    requested frequency at [1] and the margin at [3]); the writer -- create_clkout, whose keyword parameters freq / phase / margin are
    the public API -- must store them at those positions, or the margin test compares against the phase and the phase shifter is
    programmed with the margin."""
    n = 0
    for fname in sorted(os.listdir(os.path.join(ctx.repo, D))):
        if not fname.endswith(".py"):
            continue
        m = ctx.mod(D + fname)
        for c in [c for c in m.tree.body if isinstance(c, ast.ClassDef)]:
            for fn in [f for f in c.body if isinstance(f, ast.FunctionDef) and f.name == "create_clkout"]:
                params = {a.arg for a in fn.args.args + fn.args.kwonlyargs}
                for st in ast.walk(fn):
                    if not (isinstance(st, ast.Assign) and isinstance(st.value, ast.Tuple) and len(st.value.elts) >= 4 and
                            any(isinstance(t, ast.Subscript) and norm(t.value) == "self.clkouts" for t in st.targets)):
                        continue
                    el = st.value.elts
                    names = [{x.id for x in ast.walk(e) if isinstance(x, ast.Name)} & {"freq", "phase", "margin"} for e in el]
                    ok = names[0] == set() and names[1] == {"freq"} and names[3] == ({"margin"} if "margin" in params else set()) and \
                        names[2] <= {"phase"} and (names[2] == {"phase"} or isinstance(el[2], ast.Constant))
                    n += 1
                    ctx.ob("G16", D + fname, f"{c.name}.create_clkout", "record = (signal, freq, phase, margin, ..) in the positions the readers unpack", ok,
                           "" if ok else f"`{norm(st)[:100]}`: position 1 / 2 / 3 carry {[sorted(x) for x in names[1:4]]}, the search and do_finalize "
                                         f"read requested frequency, phase and margin there: the margin test and the phase setting use the wrong "
                                         f"quantity", st)
    return n


def _g17(ctx):
    """NXOSCA.compute_divisor interpreted (lxs/pyconst.py) on a grid of requests against the declared divider range: the divider
    returned meets the request within its margin and lies in the range; a request is refused exactly when no divider of the range
    meets it (divider 0 -- the undivided oscillator -- included)."""
    from .. import pyconst
    from ..pyconst import NS, Native
    rel = D + "lattice_nx.py"
    m = ctx.mod(rel)
    fn = m.method("NXOSCA", "compute_divisor")
    ctx.analysed["functions"].add(f"{rel}::NXOSCA.compute_divisor")
    cdef = [c for c in m.tree.body if isinstance(c, ast.ClassDef) and c.name == "NXOSCA"][0]
    attrs = {}
    for st in cdef.body:
        if isinstance(st, ast.Assign) and len(st.targets) == 1 and isinstance(st.targets[0], ast.Name):
            try:
                attrs[st.targets[0].id] = ast.literal_eval(st.value)
            except (ValueError, SyntaxError):
                pass
    rng, fosc = attrs.get("clk_hf_div_range"), attrs.get("clk_hf_freq")
    ctx.need(isinstance(rng, tuple) and len(rng) == 2 and isinstance(fosc, (int, float)), "NXOSCA: clk_hf_div_range / clk_hf_freq are no longer literal class attributes")
    funcs = {f.name: f for f in m.tree.body if isinstance(f, ast.FunctionDef)}
    consts = {"compute_config_log": Native(lambda *a, **k: None)}
    bad = {"refused": None, "wrong": None}
    n = n_ok = n_ref = 0
    freqs = [fosc / (d + 1) * k for d in (0, 1, 2, 3, 7, 44, 100, rng[1] - 2, rng[1] - 1, rng[1], rng[1] + 40) for k in (1.0, 0.97, 1.04, 1.2)] + [fosc * 1.5, 1.0e3]
    for f in freqs:
        for margin in (0.0, 0.01, 0.05, 0.15):
            sat = [d for d in range(*rng) if abs(fosc / (d + 1) - f) <= f * margin]
            me = NS(logger=NS(), **attrs)
            try:
                r = pyconst.call(fn, {"self": me, "freq": f, "margin": margin}, consts=consts, funcs=funcs)
            except pyconst.Unknowable as ex:
                ctx.need(False, f"NXOSCA.compute_divisor cannot be interpreted: {ex}")
            n += 1
            what = f"compute_divisor({f!r} Hz, margin={margin})"
            if r[0] == "raise":
                n_ref += 1
                if sat:
                    bad["refused"] = bad["refused"] or f"{what} is refused although divider(s) {sat[:3]} of the declared range {rng} meet the request"
                continue
            n_ok += 1
            try:
                d = int(r[1])
            except (TypeError, ValueError):
                d = None
            if d is None or d not in sat:
                bad["wrong"] = bad["wrong"] or f"{what} returns {r[1]!r}: " + ("no divider of the declared range meets the request, it must be refused" if not sat else
                                                                            f"{fosc!r}/({d}+1) is outside the margin or the range {rng}; dividers that qualify: {sat[:3]}")
    ctx.analysed["paths"] += n
    ctx.ob("G17", rel, "NXOSCA.compute_divisor", "interpreted requests:present", n_ok >= 40 and n_ref >= 20, f"{n_ok} granted / {n_ref} refused", fn)
    ctx.ob("G17", rel, "NXOSCA.compute_divisor", "refused only when no divider of the declared range meets the request", bad["refused"] is None, bad["refused"] or "", fn)
    ctx.ob("G17", rel, "NXOSCA.compute_divisor", "returned divider lies in the declared range and meets the request within its margin", bad["wrong"] is None, bad["wrong"] or "", fn)


def _frange(spec):
    """the values clkdiv_range / range would hand out for a declared (start, stop[, step]) tuple"""
    start, stop = spec[0], spec[1]
    step = spec[2] if len(spec) > 2 else 1
    out, x = [], start
    while x < stop:
        out.append(x)
        x += step
    return out


def _g18(ctx):
    """The search routines decided BY VALUE on model primitives: compute_config of XilinxClocking (all Xilinx PLL / MMCM classes inherit
    it), iCE40PLL and IntelClocking interpreted (lxs/pyconst.py) with small model ranges -- the routines read every range from `self`,
    so a model primitive exercises them exactly like a real one, at a cost that lets the checker enumerate the whole space itself:
    a returned configuration, recomputed from its own multipliers and dividers, lies inside the ranges and the VCO window and meets
    every request within its margin; a request is refused exactly when the enumeration finds no setting."""
    from .. import pyconst
    from ..pyconst import NS, Native
    common = ctx.mod(D + "common.py")
    cfuncs = {f.name: f for f in common.tree.body if isinstance(f, ast.FunctionDef)}
    import math as _math
    import functools as _ft
    import operator as _op

    def _reduce(f_, vals, init=None):
        try:
            return _ft.reduce(f_, vals, init) if init is not None else _ft.reduce(f_, vals)
        except TypeError:
            raise pyconst.Raised()          # the real routine would stop with a TypeError here
    consts = {"compute_config_log": Native(lambda *a, **k: None), "float": Native(float), "mul": _op.mul,
              "reduce": Native(_reduce), "Signal": Native(lambda *a, **k: "sig")}
    EPS = 1e-9

    def close(a, b):
        return isinstance(a, (int, float)) and abs(a - b) <= EPS * max(abs(b), 1.0)

    def within(x, lo, hi):
        return lo * (1 - EPS) <= x <= hi * (1 + EPS)

    # ---- model primitives: (file, class, attributes, request grid, enumerate(me, reqs) -> settings, verify(me, reqs, cfg) -> text | None)
    def xil_solutions(me, reqs):
        lo, hi = me["vco_freq_range"][0] * (1 + me["vco_margin"]), me["vco_freq_range"][1] * (1 - me["vco_margin"])
        for dv in range(*me["divclk_divide_range"]):
            for mu in range(*me["clkfbout_mult_frange"]):
                vco = me["clkin_freq"] * mu / dv
                if not (lo <= vco <= hi):
                    continue
                if all(any(abs(vco / d - f) <= f * m for d in _frange(me["clkout_divide_range"]) + (_frange(me[f"clkout{n}_divide_range"]) if me.get(f"clkout{n}_divide_range") else []))
                       for n, (f, p, m) in enumerate(reqs)):
                    yield (dv, mu)

    def xil_verify(me, reqs, cfg):
        dv, mu = cfg.get("divclk_divide"), cfg.get("clkfbout_mult")
        if dv not in range(*me["divclk_divide_range"]) or mu not in range(*me["clkfbout_mult_frange"]):
            return f"divclk_divide = {dv!r}, clkfbout_mult = {mu!r} outside the declared ranges {me['divclk_divide_range']} / {me['clkfbout_mult_frange']}"
        vco = me["clkin_freq"] * mu / dv
        if not within(vco, me["vco_freq_range"][0] * (1 + me["vco_margin"]), me["vco_freq_range"][1] * (1 - me["vco_margin"])):
            return f"VCO {vco!r} Hz recomputed from mult {mu} / div {dv} is outside the window {me['vco_freq_range']} (margin {me['vco_margin']})"
        if not close(cfg.get("vco"), vco):
            return f"config['vco'] = {cfg.get('vco')!r}, recomputed {vco!r}"
        for n, (f, p, m) in enumerate(reqs):
            d = cfg.get(f"clkout{n}_divide")
            legal = _frange(me["clkout_divide_range"]) + (_frange(me[f"clkout{n}_divide_range"]) if me.get(f"clkout{n}_divide_range") else [])
            if not any(close(d, x) for x in legal):
                return f"clkout{n}_divide = {d!r} is not a divider of the declared range(s)"
            if abs(vco / d - f) > f * m * (1 + 1e-9) + 1e-6:
                return f"output {n}: {vco!r} / {d} = {vco / d!r} Hz misses the requested {f!r} Hz by more than the margin {m}"
            if not close(cfg.get(f"clkout{n}_freq"), vco / d) or cfg.get(f"clkout{n}_phase") != p:
                return f"output {n}: recorded frequency / phase {cfg.get(f'clkout{n}_freq')!r} / {cfg.get(f'clkout{n}_phase')!r}, recomputed {vco / d!r} / requested phase {p}"
        return None

    def ice_solutions(me, reqs):
        for dr in range(*me["divr_range"]):
            for df in range(*me["divf_range"]):
                vco = me["clkin_freq"] / (dr + 1) * (df + 1)
                if me["vco_freq_range"][0] <= vco <= me["vco_freq_range"][1] and \
                        all(any(abs(vco / 2 ** dq - f) <= f * m for dq in range(*me["divq_range"])) for (f, p, m) in reqs):
                    yield (dr, df)

    def ice_verify(me, reqs, cfg):
        dr, df, dq = cfg.get("divr"), cfg.get("divf"), cfg.get("divq")
        if dr not in range(*me["divr_range"]) or df not in range(*me["divf_range"]) or dq not in range(*me["divq_range"]):
            return f"divr / divf / divq = {dr!r} / {df!r} / {dq!r} outside the declared ranges"
        vco = me["clkin_freq"] / (dr + 1) * (df + 1)
        if not within(vco, *me["vco_freq_range"]):
            return f"VCO {vco!r} Hz recomputed from divr {dr}, divf {df} is outside the window {me['vco_freq_range']}"
        f, p, m = reqs[0]
        if abs(vco / 2 ** dq - f) > f * m * (1 + 1e-9) + 1e-6:
            return f"{vco!r} / 2**{dq} = {vco / 2 ** dq!r} Hz misses the requested {f!r} Hz by more than the margin {m}"
        if not close(cfg.get("vco"), vco) or not close(cfg.get("clkout_freq"), vco / 2 ** dq):
            return f"recorded vco / clkout_freq {cfg.get('vco')!r} / {cfg.get('clkout_freq')!r}, recomputed {vco!r} / {vco / 2 ** dq!r}"
        return None

    def intel_ns(me):
        lo = max(_math.ceil(me["clkin_freq"] / me["clkin_pfd_freq_range"][1]), me["n_div_range"][0])
        hi = min(_math.floor(me["clkin_freq"] / me["clkin_pfd_freq_range"][0]) + 1, me["n_div_range"][1])
        return range(lo, hi)

    def intel_solutions(me, reqs):
        lo, hi = me["vco_freq_range"][0] * (1 + me["vco_margin"]), me["vco_freq_range"][1] * (1 - me["vco_margin"])
        for n_ in intel_ns(me):
            for m_ in range(*me["m_div_range"]):
                vco = me["clkin_freq"] * m_ / n_
                if lo <= vco <= hi and all(any(abs(vco / c - f) <= f * mg for c in _frange(me["c_div_range"])) for (f, p, mg) in reqs):
                    yield (n_, m_)

    def intel_verify(me, reqs, cfg):
        m_ = cfg.get("m")
        if m_ not in range(*me["m_div_range"]):
            return f"m = {m_!r} outside the declared range {me['m_div_range']}"
        # n is folded into the output dividers (clk<i>_divide = c * n): recover it from the recorded VCO
        vco = cfg.get("vco")
        ns = [n_ for n_ in intel_ns(me) if close(me["clkin_freq"] * m_ / n_, vco)] if isinstance(vco, (int, float)) else []
        if not ns:
            return f"config['vco'] = {vco!r} is not clkin * m / n for any legal input divider n"
        if not within(vco, me["vco_freq_range"][0] * (1 + me["vco_margin"]), me["vco_freq_range"][1] * (1 - me["vco_margin"])):
            return f"VCO {vco!r} Hz outside the window {me['vco_freq_range']} (margin {me['vco_margin']})"
        for i, (f, p, mg) in enumerate(reqs):
            dv = cfg.get(f"clk{i}_divide")
            cs = [c for c in _frange(me["c_div_range"]) for n_ in ns if close(dv, c * n_)]
            if not cs:
                return f"clk{i}_divide = {dv!r} is not c * n for a legal output divider c"
            if abs(vco / cs[0] - f) > f * mg * (1 + 1e-9) + 1e-6:
                return f"output {i}: {vco!r} / {cs[0]} = {vco / cs[0]!r} Hz misses the requested {f!r} Hz by more than the margin {mg}"
            if not close(cfg.get(f"clk{i}_freq"), vco / cs[0]) or cfg.get(f"clk{i}_phase") != p:
                return f"output {i}: recorded frequency / phase {cfg.get(f'clk{i}_freq')!r} / {cfg.get(f'clk{i}_phase')!r}, recomputed {vco / cs[0]!r} / requested phase {p}"
        return None

    def ecp5_solutions(me, reqs):
        # model primitives keep a spare output, so a feedback path always exists (the routine adds an output for it)
        for ci in range(*me["clki_div_range"]):
            if not (me["pfd_freq_range"][0] <= me["clkin_freq"] / ci <= me["pfd_freq_range"][1]):
                continue
            for ofb in range(*me["clko_div_range"]):
                for fb in range(*me["clkfb_div_range"]):
                    vco = (me["clkin_freq"] / ci) * fb * ofb
                    if me["vco_freq_range"][0] <= vco <= me["vco_freq_range"][1] and \
                            all(any(abs(vco / d - f) <= f * m for d in range(*me["clko_div_range"])) for (f, p, m) in reqs):
                        yield (ci, ofb, fb)

    def ecp5_verify(me, reqs, cfg):
        ci, fb, k = cfg.get("clki_div"), cfg.get("clkfb_div"), cfg.get("clkfb")
        if ci not in range(*me["clki_div_range"]) or fb not in range(*me["clkfb_div_range"]):
            return f"clki_div = {ci!r}, clkfb_div = {fb!r} outside the declared ranges"
        if not within(me["clkin_freq"] / ci, *me["pfd_freq_range"]):
            return f"phase detector frequency {me['clkin_freq'] / ci!r} Hz outside {me['pfd_freq_range']}"
        ofb = cfg.get(f"clko{k}_div")
        if ofb not in range(*me["clko_div_range"]):
            return f"feedback output {k!r} has divider {ofb!r}, not a divider of clko_div_range {me['clko_div_range']}"
        vco = (me["clkin_freq"] / ci) * fb * ofb
        if not within(vco, *me["vco_freq_range"]):
            return f"VCO {vco!r} Hz recomputed from clki_div {ci}, clkfb_div {fb} and the feedback output's divider {ofb} is outside {me['vco_freq_range']}"
        if not close(cfg.get("vco"), vco):
            return f"config['vco'] = {cfg.get('vco')!r}, recomputed from the feedback path {vco!r}: the loop locks elsewhere than the search assumed"
        for n, (f, p, m) in enumerate(reqs):
            d = cfg.get(f"clko{n}_div")
            if d not in range(*me["clko_div_range"]):
                return f"clko{n}_div = {d!r} outside clko_div_range"
            if abs(vco / d - f) > f * m * (1 + 1e-9) + 1e-6:
                return f"output {n}: {vco!r} / {d} = {vco / d!r} Hz misses the requested {f!r} Hz by more than the margin {m}"
            if not close(cfg.get(f"clko{n}_freq"), vco / d) or cfg.get(f"clko{n}_phase") != p:
                return f"output {n}: recorded frequency / phase {cfg.get(f'clko{n}_freq')!r} / {cfg.get(f'clko{n}_phase')!r}, recomputed {vco / d!r} / requested phase {p}"
        return None

    single = [[(f, 0, m)] for f in (200e6, 100e6, 66e6, 37.5e6, 333e6, 123.4e6, 800e6, 50e6, 105e6) for m in (0.0, 1e-2, 5e-2)]
    multi = [[(200e6, 0, 1e-2), (50e6, 90, 1e-2)], [(100e6, 0, 0.0), (200e6, 180, 0.0), (25e6, 0, 5e-2)], [(150e6, 0, 1e-2), (133e6, 0, 1e-2)],
             [(400e6, 0, 0.0), (100e6, 45, 0.0)], [(66e6, 0, 5e-2), (33e6, 0, 5e-2)]]
    models = [
        ("xilinx_common.py", "XilinxClocking", xil_solutions, xil_verify, single + multi,
         [dict(divclk_divide_range=(1, 4), clkfbout_mult_frange=(2, 9), clkout_divide_range=(1, 9), vco_freq_range=(400e6, 800e6), vco_margin=vm, clkin_freq=ci, **extra)
          for ci in (100e6, 50e6) for vm in (0, 0.1) for extra in ({}, {"clkout0_divide_range": (2, 4, 0.125)})]),
        ("lattice_ice40.py", "iCE40PLL", ice_solutions, ice_verify, single,
         [dict(divr_range=(0, 3), divf_range=(0, 12), divq_range=(1, 5), vco_freq_range=(400e6, 800e6), clkin_freq=ci) for ci in (100e6, 48e6, 12e6)]),
        ("lattice_ecp5.py", "ECP5PLL", ecp5_solutions, ecp5_verify, single + multi,
         [dict(clki_div_range=(1, 4), clkfb_div_range=(1, 6), clko_div_range=(1, 9), vco_freq_range=(400e6, 800e6), pfd_freq_range=(30e6, 400e6), nclkouts_max=4,
               dpa_en=False, clkin_freq=ci) for ci in (100e6, 50e6, 25e6)]),
        ("intel_common.py", "IntelClocking", intel_solutions, intel_verify, single + multi,
         [dict(n_div_range=(1, 4), m_div_range=(1, 10), c_div_range=(1, 9), vco_freq_range=(400e6, 800e6), clkin_pfd_freq_range=(20e6, 200e6), vco_margin=vm, clkin_freq=ci)
          for ci in (100e6, 50e6) for vm in (0, 0.1)]),
    ]
    for fname, cname, solutions, verify, grid, attrsets in models:
        m = ctx.mod(D + fname)
        fn = m.method(cname, "compute_config")
        ctx.analysed["functions"].add(f"{D}{fname}::{cname}.compute_config")
        funcs = dict(cfuncs)
        funcs.update({f.name: f for f in m.tree.body if isinstance(f, ast.FunctionDef)})
        bad = {"cfg": None, "refused": None, "granted": None}
        n_ok = n_ref = 0
        for attrs in attrsets:
            for reqs in grid:
                if cname == "iCE40PLL" and len(reqs) != 1:
                    continue
                me = NS(clkouts={i: ((f"clk{i}", f, p, mg, False) if cname == "ECP5PLL" else (f"clk{i}", f, p, mg)) for i, (f, p, mg) in enumerate(reqs)},
                        nclkouts=len(reqs), logger=NS(), **attrs)
                what = f"model {cname} { {k: v for k, v in attrs.items()} }, requests {[(f, p, mg) for f, p, mg in reqs]}"
                try:
                    r = pyconst.call(fn, {"self": me}, consts=consts, funcs=funcs)
                except pyconst.Unknowable as ex:
                    ctx.need(False, f"{cname}.compute_config cannot be interpreted on the model primitive: {ex}")
                sat = next(iter(solutions(me, reqs)), None)
                if r[0] == "raise":
                    n_ref += 1
                    if sat is not None:
                        bad["refused"] = bad["refused"] or f"{what}: refused, although the setting {sat} lies inside every declared range and meets every request"
                    continue
                n_ok += 1
                cfg = r[1] if isinstance(r[1], dict) else {}
                why = verify(me, reqs, cfg)
                if why is not None:
                    bad["cfg"] = bad["cfg"] or f"{what}: returned {dict(cfg)}: {why}"
                if sat is None and why is None:
                    bad["granted"] = bad["granted"] or f"{what}: a configuration is returned although the enumeration finds none"
        ctx.analysed["paths"] += n_ok + n_ref
        ctx.ob("G18", D + fname, f"{cname}.compute_config", "interpreted requests:present", n_ok >= 10 and n_ref >= 10, f"{n_ok} granted / {n_ref} refused", fn)
        ctx.ob("G18", D + fname, f"{cname}.compute_config", "returned configuration, recomputed, is inside the declared ranges / VCO window and meets every request", bad["cfg"] is None and bad["granted"] is None,
               bad["cfg"] or bad["granted"] or "", fn)
        ctx.ob("G18", D + fname, f"{cname}.compute_config", "refused only when no setting inside the declared ranges meets the requests", bad["refused"] is None, bad["refused"] or "", fn)


# Gowin on-chip oscillator: parts whose OSC runs at 210 MHz (DS100 / DS117: the -4 family incl. the RF variant); every other part 250 MHz.
# Frozen from the pinned tree and the data sheets: the reference for any later change of the device test.
GW1N_OSC_210 = ("GW1N-4", "GW1NR-4", "GW1N-4B", "GW1NR-4B", "GW1NRF-4B", "GW1N-4C", "GW1NR-4C")
GW1N_OSC_250 = ("GW1N-1", "GW1NZ-1", "GW1N-9", "GW1NR-9", "GW1N-9C", "GW1N-2")


def _g19(ctx):
    """GW1NOSC.__init__ interpreted (primitives as opaque objects) for every part of the frozen device table x a request grid: the
    emitted FREQ_DIV, applied to *that part's* oscillator frequency, meets the request within its margin and lies in osc_div_range;
    refusal only when no divider of the range does; the DEVICE parameter is the part asked for."""
    from .. import pyconst
    from ..pyconst import NS
    rel = D + "gowin_gw1n.py"
    m = ctx.mod(rel)
    fn = m.method("GW1NOSC", "__init__")
    ctx.analysed["functions"].add(f"{rel}::GW1NOSC.__init__")
    cdef = [c for c in m.tree.body if isinstance(c, ast.ClassDef) and c.name == "GW1NOSC"][0]
    rng = None
    for st in cdef.body:
        if isinstance(st, ast.Assign) and norm(st.targets[0]) == "osc_div_range":
            try:
                rng = ast.literal_eval(st.value)
            except (ValueError, SyntaxError):
                pass
    ctx.need(isinstance(rng, tuple) and len(rng) == 2, "GW1NOSC.osc_div_range is no longer a literal class attribute")
    bad = {"div": None, "refused": None, "dev": None}
    n_ok = n_ref = 0
    for dev in GW1N_OSC_210 + GW1N_OSC_250:
        osc = 210e6 if dev in GW1N_OSC_210 else 250e6
        for f in (105e6, 35e6, 10.5e6, 125e6, 25e6, 12.5e6, 2.5e6, 3e6, 1e6):
            for mg in (1e-3, 1e-2, 5e-2):
                sat = [d for d in range(*rng) if f * (1 - mg) <= osc / d <= f * (1 + mg)]
                me = NS(osc_div_range=rng, specials=[], logger=NS())
                it = pyconst.Interp({"self": me, "device": dev, "freq": f, "margin": mg, "logging": NS()}, objects=True, exact=True,
                                    funcs={x.name: x for x in m.tree.body if isinstance(x, ast.FunctionDef)})
                what = f"GW1NOSC({dev!r}, {f!r} Hz, margin={mg}) [oscillator {osc / 1e6:.0f} MHz]"
                refused = False
                try:
                    it.run(fn.body)
                    refused = getattr(it, "result", None) is not None and it.result[0] == "raise"
                except pyconst.Raised:
                    refused = True
                except Exception as ex:     # noqa
                    ctx.need(False, f"GW1NOSC.__init__ cannot be interpreted: {type(ex).__name__}: {ex}")
                if refused:
                    n_ref += 1
                    if sat:
                        bad["refused"] = bad["refused"] or f"{what}: refused, although FREQ_DIV {sat[:3]} of osc_div_range {rng} meet the request"
                    continue
                inst = [o for o in it.created if o.cls == "Instance" and o.args and o.args[0] == "OSC"]
                ctx.need(len(inst) == 1, "GW1NOSC.__init__ emits no single OSC instance the interpreter can read")
                n_ok += 1
                kw = inst[0].kwargs
                if kw.get("p_FREQ_DIV") not in sat:
                    d = kw.get("p_FREQ_DIV")
                    bad["div"] = bad["div"] or f"{what}: FREQ_DIV = {d!r}" + (f" gives {osc / d / 1e6:.3f} MHz" if isinstance(d, int) and d else "") + \
                        (f"; dividers that meet the request: {sat[:3]}" if sat else ": no divider meets the request, it must be refused")
                if kw.get("p_DEVICE") != dev:
                    bad["dev"] = bad["dev"] or f"{what}: DEVICE = {kw.get('p_DEVICE')!r}"
    ctx.analysed["paths"] += n_ok + n_ref
    ctx.ob("G19", rel, "GW1NOSC.__init__", "interpreted requests:present", n_ok >= 60 and n_ref >= 60, f"{n_ok} granted / {n_ref} refused", fn)
    ctx.ob("G19", rel, "GW1NOSC.__init__", "FREQ_DIV applied to the part's own oscillator frequency meets the request (device table: 7 parts at 210 MHz, others 250 MHz)",
           bad["div"] is None, bad["div"] or "", fn)
    ctx.ob("G19", rel, "GW1NOSC.__init__", "refused only when no divider of osc_div_range meets the request", bad["refused"] is None, bad["refused"] or "", fn)
    ctx.ob("G19", rel, "GW1NOSC.__init__", "DEVICE parameter = the part asked for", bad["dev"] is None, bad["dev"] or "", fn)


def _g15(ctx):
    """GateMatePLL.do_finalize interpreted (lxs/pyconst.py, primitives as opaque objects) on model requests: the CC_PLL primitive is
    configured by two decimal strings and two doubler flags only, so those must reproduce the registered input frequency and every
    requested output exactly (there is no margin on this helper), and each output pin carries the signal registered for its phase."""
    from .. import pyconst
    from ..pyconst import NS
    rel = D + "colognechip.py"
    m = ctx.mod(rel)
    fn = m.method("GateMatePLL", "do_finalize")
    ctx.analysed["functions"].add(f"{rel}::GateMatePLL.do_finalize")
    funcs = {f.name: f for f in m.tree.body if isinstance(f, ast.FunctionDef)}
    bad = {"in": None, "out": None, "pin": None}
    n = 0
    fins = (10e6, 25e6, 12.288e6, 100e6 / 3)
    fouts = (50e6, 12.288e6, 11.0592e6, 100e6 / 3, 148.351648e6)
    shapes = ({0: 1}, {0: 1, 90: 1}, {0: 1, 180: 2}, {90: 1, 180: 1, 270: 2}, {180: 1}, {0: 1, 90: 1, 180: 2, 270: 2})
    for fin in fins:
        for fo in fouts:
            for shape in shapes:
                req = {ph: (f"clk{ph}", fo * k) for ph, k in shape.items()}
                me = NS(_clkin="clkin", _clkouts=dict(req), _clkin_freq=fin, _low_jitter=1, _perf_mode="economy", _lock_req=1, _usr_clk_ref=False,
                        _max_freq=250e6, specials=[], comb=[], locked="locked", reset="reset", logger=NS())
                it = pyconst.Interp({"self": me}, objects=True, funcs=funcs)
                try:
                    it.run(fn.body)
                except pyconst.Raised:
                    bad["out"] = bad["out"] or f"input {fin} Hz, outputs { {p_: f_ for p_, (_, f_) in req.items()} }: a legal request is refused in do_finalize"
                    continue
                except Exception as ex:     # noqa
                    ctx.need(False, f"GateMatePLL.do_finalize cannot be interpreted: {type(ex).__name__}: {ex}")
                inst = [o for o in it.created if o.cls == "Instance" and o.args and o.args[0] == "CC_PLL"]
                ctx.need(len(inst) == 1 and "**" not in inst[0].kwargs, "GateMatePLL.do_finalize emits no single CC_PLL instance the interpreter can read")
                kw = inst[0].kwargs
                n += 1
                what = f"input {fin!r} Hz, outputs { {p_: f_ for p_, (_, f_) in req.items()} }"

                def mhz(v):
                    try:
                        return float(v) * 1e6
                    except (TypeError, ValueError):
                        return None
                ref, out = mhz(kw.get("p_REF_CLK")), mhz(kw.get("p_OUT_CLK"))
                if ref is None or abs(ref - fin) > 1e-9 * fin:
                    bad["in"] = bad["in"] or f"{what}: REF_CLK = {kw.get('p_REF_CLK')!r} MHz is not the registered input ({fin / 1e6!r} MHz)"
                for ph, (sig, f_) in req.items():
                    k = 2 if kw.get(f"p_CLK{ph}_DOUB") == 1 else 1
                    if ph in (0, 90) and f"p_CLK{ph}_DOUB" in kw:
                        k = None
                    got = None if (out is None or k is None) else out * k
                    if got is None or abs(got - f_) > 1e-9 * f_:
                        bad["out"] = bad["out"] or f"{what}: OUT_CLK = {kw.get('p_OUT_CLK')!r} MHz, CLK{ph}_DOUB = {kw.get(f'p_CLK{ph}_DOUB')!r} gives " \
                                                    f"{got!r} Hz on CLK{ph}, requested {f_!r} Hz: the emitted primitive does not produce the requested clock"
                    if kw.get(f"o_CLK{ph}") != sig:
                        bad["pin"] = bad["pin"] or f"{what}: pin CLK{ph} drives {kw.get(f'o_CLK{ph}')!r}, the request registered {sig!r}"
                for ph in (0, 90, 180, 270):
                    if ph not in req and isinstance(kw.get(f"o_CLK{ph}"), str):
                        bad["pin"] = bad["pin"] or f"{what}: unrequested pin CLK{ph} drives {kw.get(f'o_CLK{ph}')!r}"
    ctx.analysed["paths"] += n
    ctx.ob("G15", rel, "GateMatePLL.do_finalize", "interpreted requests:present", n >= 100, f"{n} requests", fn)
    ctx.ob("G15", rel, "GateMatePLL.do_finalize", "REF_CLK string = registered input frequency", bad["in"] is None, bad["in"] or "", fn)
    ctx.ob("G15", rel, "GateMatePLL.do_finalize", "OUT_CLK string x doubler flag = requested frequency of every output", bad["out"] is None, bad["out"] or "", fn)
    ctx.ob("G15", rel, "GateMatePLL.do_finalize", "pin CLK<phase> drives the signal registered for that phase", bad["pin"] is None, bad["pin"] or "", fn)


def run(ctx):
    ctx.rule("G15", "GateMate CC_PLL (configured by strings): the REF_CLK / OUT_CLK parameters and the CLK180/270 doubler flags placed on the "
                    "instance reproduce the registered input and every requested output frequency exactly; each output pin carries its "
                    "own phase's signal", min_sites=4)
    _g15(ctx)
    ctx.rule("G16", "request record layout: create_clkout stores (signal, freq, phase, margin[, ..]) at the positions every reader of "
                    "self.clkouts unpacks (frequency at 1, phase at 2, margin at 3)", min_sites=7)
    _g16(ctx)
    ctx.rule("G17", "Lattice NX oscillator: compute_divisor returns a divider of the declared range that meets the request within its "
                    "margin, and refuses exactly when none does (divider 0 included) -- by interpretation against a brute-force search", min_sites=3)
    _g17(ctx)
    ctx.rule("G18", "search routines by value: compute_config of XilinxClocking (inherited by every Xilinx PLL / MMCM class), iCE40PLL, "
                    "ECP5PLL and IntelClocking interpreted on model primitives with small ranges and compared with the checker's own enumeration of "
                    "the whole space: returned settings recomputed from their multipliers / dividers meet every request within its margin "
                    "inside the ranges and the VCO window; refusal only when the enumeration is empty", min_sites=12)
    _g18(ctx)
    ctx.rule("G19", "Gowin GW1N on-chip oscillator: for every part of the frozen device table the emitted FREQ_DIV, applied to that part's "
                    "oscillator frequency (210 MHz for the -4 family incl. GW1NRF-4B, 250 MHz otherwise), meets the request; refusal only "
                    "when no divider does", min_sites=4)
    _g19(ctx)
    ctx.rule("G14", "declared windows are closed intervals: a computed frequency equal to a declared minimum / maximum passes every window "
                    "test of the search routines (non-strict acceptance, strict rejection)", min_sites=14)
    _g14(ctx)
    ctx.rule("G13", "one request record per output: in do_finalize the block of an output reads the frequency / margin of that output's "
                    "own record", min_sites=2)
    _g13(ctx)
    ctx.rule("G1", "every loop variable that reaches the returned configuration iterates a declared *_range attribute "
                   "(range/reversed/clkdiv_range of self.<x>range, possibly through locals); frozen exceptions with reason",
             min_sites=16)
    ctx.rule("G2", "every declared divider/multiplier/PFD/VCO range attribute of a clocking class is read by its "
                   "compute_config", min_sites=40)
    ctx.rule("G3", "return config only on paths that passed the VCO window test (and the PFD window test where declared) "
                   "in range and, when outputs are iterated, an accepting margin test", min_sites=8)
    ctx.rule("G4", "every acceptance test has the form |f' - f| <= f*m (or its negation / relative form) on the output's "
                   "own requested frequency and margin", min_sites=8)
    ctx.rule("G5", "configuration keys read by do_finalize are written by compute_config; each primitive parameter takes "
                   "the key whose name tokens it contains (vendor alias table)", min_sites=40)

    ctx.rule("G6", "per-candidate flags are fresh: inside the loop whose iteration evaluates one candidate (the innermost loop that "
                   "returns the configuration) every read of a flag (a name or config[...] slot that is assigned True/False/None in a "
                   "loop) is preceded, on every feasible path of one iteration of that loop or of a loop nested in it, by a store of "
                   "the same iteration: nothing decided for an earlier, rejected candidate (or output) leaks into the returned one", min_sites=10)    # 16 on the pinned tree; a search may legitimately use for/else instead of a flag
    ctx.rule("G8", "search bounds derived from a frequency window round inwards: a bound computed as ceil/floor of a quotient that has "
                   "<x>_range[1] in the denominator or <x>_range[0] in the numerator is a lower bound and uses ceil; [0] in the "
                   "denominator or [1] in the numerator is an upper bound and uses floor", min_sites=6)
    for rel in ("intel_common.py", "efinix.py"):
        m8 = ctx.mod(D + rel)
        for cname8, c8 in m8.classes.items():
            for fn8 in [x for x in c8.body if isinstance(x, ast.FunctionDef)]:
                for n in ast.walk(fn8):
                    if not (isinstance(n, ast.Call) and norm(n.func) in ("math.ceil", "math.floor", "ceil", "floor") and len(n.args) == 1 and
                            isinstance(n.args[0], ast.BinOp) and isinstance(n.args[0].op, ast.Div)):
                        continue

                    def idx(e):
                        out = set()
                        for x in ast.walk(e):
                            if isinstance(x, ast.Subscript) and isinstance(x.slice, ast.Constant) and x.slice.value in (0, 1) and \
                                    norm(x.value).endswith("range"):
                                out.add(x.slice.value)
                        return out
                    num, den = idx(n.args[0].left), idx(n.args[0].right)
                    lower = (1 in den) or (0 in num)
                    upper = (0 in den) or (1 in num)
                    if lower == upper:
                        continue          # no window element, or both: not a one-sided bound
                    is_ceil = norm(n.func).endswith("ceil")
                    ok = is_ceil == lower
                    ctx.ob("G8", D + rel, f"{cname8}.{fn8.name}", f"{'lower' if lower else 'upper'} bound {norm(n)[:60]} rounds inwards", ok,
                           "" if ok else f"`{norm(n)}` is a{'n upper' if upper else ' lower'} bound of the search (window element "
                                         f"{'[0] in the denominator / [1] in the numerator' if upper else '[1] in the denominator / [0] in the numerator'}) "
                                         f"but rounds {'up' if is_ceil else 'down'}: the first value outside the window is searched and can be returned", n)
    ctx.rule("G12", "request admission reads the range of its own direction: an output request (create_clkout) is tested against an "
                    "output-side *_freq_range attribute, an input registration (register_clkin) against an input-side one -- never the "
                    "other's (a legal request would be refused, an illegal one admitted)", min_sites=6)
    _g12(ctx)
    ctx.rule("G11", "Efinix PLL: the output dividers tried for an output are those legal for *that output's* phase (get_c_range(device, "
                    "its phase)), not the list computed for another output (the legal divider set shrinks with the phase shift)", min_sites=2)
    _g11(ctx)
    ctx.rule("G10", "UltraScale+ MMCM fractional settings: every value tried for CLKFBOUT_MULT_F and for CLKOUT0_DIVIDE_F lies in the "
                    "documented range 2.0 .. 128.0 on the 0.125 grid, and both ends are tried (values are computed from the source by "
                    "constant propagation, generators included)", min_sites=2)
    _g10(ctx)
    ctx.rule("G9", "the VCO guard band narrows the window: wherever vco_margin scales a window edge, the lower edge (vco min / range[0]) "
                   "is multiplied by (1 + margin) and the upper edge (vco max / range[1]) by (1 - margin)", min_sites=10)
    for p9 in sorted(ctx.mod(D + "common.py") and [f for f in ("gowin_gw1n.py", "gowin_gw5a.py", "intel_common.py", "xilinx_common.py", "xilinx_usp.py")]):
        m9 = ctx.mod(D + p9)
        for cname9, c9 in m9.classes.items():
            for fn9 in [x for x in c9.body if isinstance(x, ast.FunctionDef)]:
                for n in ast.walk(fn9):
                    if not (isinstance(n, ast.BinOp) and isinstance(n.op, ast.Mult)):
                        continue
                    for edge, fac in ((n.left, n.right), (n.right, n.left)):
                        if isinstance(fac, ast.BinOp) and isinstance(fac.op, (ast.Add, ast.Sub)) and norm(fac.left) == "1" and \
                                norm(fac.right).endswith("vco_margin"):
                            et = norm(edge)
                            lower = "min" in et or et.endswith("range[0]")
                            upper = "max" in et or et.endswith("range[1]")
                            if lower == upper:
                                continue
                            ok = isinstance(fac.op, ast.Add) == lower
                            ctx.ob("G9", D + p9, f"{cname9}.{fn9.name}", f"{'lower' if lower else 'upper'} VCO edge {et} * {norm(fac)}", ok,
                                   "" if ok else f"`{norm(n)}` widens the window on the {'lower' if lower else 'upper'} side: VCO frequencies outside "
                                                 f"the declared device range are accepted when a guard band is requested", n)
    ctx.rule("G7", "no None / 0 confusion: a name or config[...] slot that holds None for 'nothing chosen' and otherwise an index or "
                   "number (assigned a non-boolean value) is tested with `is None` / `is not None`, never by truthiness -- index 0 / "
                   "value 0 is a legal choice", min_sites=2)
    for rel, cname, users in SEARCHES:
        m = ctx.mod(D + rel)
        fn = m.method(cname, "compute_config")
        ctx.analysed["functions"].add(f"{D + rel}::{cname}.compute_config")
        # ---------- G7
        for k, tests in sorted(_none_or_number_slots(fn).items()):
            bad = [t for t, how in tests if how == "truth"]
            ok = not bad
            ctx.ob("G7", D + rel, f"{cname}.compute_config", f"{k}: tested against None only ({len(tests)} tests)", ok,
                   "" if ok else f"`{norm(bad[0])}` tests `{k}` by truthiness although it holds None or a number/index: the legal "
                                 f"value 0 is taken for 'nothing', a valid candidate is rejected (or an invalid one accepted)", bad[0] if bad else fn)
        # ---------- G6
        if P.candidate_loop(fn) is not None:
            stale, nreads = P.stale_reads(fn)
            keys = sorted(P.flag_keys(fn))
            for k in keys:
                bad = [(n, p) for kk, lp, n, p in stale if kk == k]
                ok = not bad
                ctx.ob("G6", D + rel, f"{cname}.compute_config", f"flag {k}: fresh per candidate", ok,
                       "" if ok else f"`{k}` read at line {bad[0][0].lineno} can still hold what an earlier candidate left there "
                                     f"(path of one iteration without a prior store: {bad[0][1].show()[:160]})", bad[0][0] if bad else fn)
            ctx.analysed["paths"] += nreads
            # sibling agreement (all five return-style searches): the per-output flag `valid` is reset once per requested output
            if "valid" in keys:
                loops = P._loops_with_parents(fn)
                resets = [lp for lp, chain in loops.values() for st in lp.body
                          if isinstance(st, ast.Assign) and norm(st.targets[0]) == "valid" and isinstance(st.value, ast.Constant) and st.value.value is False]
                ok = len(resets) == 1 and "self.clkouts" in norm(resets[0].iter) if resets and isinstance(resets[0], ast.For) else False
                ctx.ob("G6", D + rel, f"{cname}.compute_config", "flag valid: reset once per requested output (loop over self.clkouts)", ok,
                       "" if ok else "`valid = False` is not a direct statement of the loop over self.clkouts: an output that cannot be met "
                                     "inherits `valid` from the output before it and the candidate is accepted", resets[0] if resets else fn)
        else:
            ctx.note(f"G6: {cname}.compute_config collects candidates and returns after the loops; flags not checked")
        defs = _local_defs(fn)
        writes = _config_writes(fn)
        written_exprs = [v for _, v, _ in writes]
        reduced = cname in ("GW1NPLL", "GW5APLL")

        # ---------- G1
        for lp in [n for n in walk_no_nested(fn) if isinstance(n, ast.For)]:
            lvars = [x.id for x in ast.walk(lp.target) if isinstance(x, ast.Name)]
            if "self.clkouts" in norm(lp.iter) or norm(lp.iter).startswith("range(0, len(") or "enumerate(" in norm(lp.iter):
                continue
            for lv in lvars:
                used = any(_mentions(v, {lv}) for v in written_exprs)
                if not used:
                    # intermediate iterables (d_range in d_ranges) feed inner loops: handled through def-use there
                    continue
                src = _declared_sources(lp.iter, defs)
                if (cname, lv) in G1_EXCEPT:
                    ctx.ob("G1", D + rel, f"{cname}.compute_config", f"loop {lv}: exception", True)
                    ctx.note(f"G1 exception {cname}.{lv}: {G1_EXCEPT[(cname, lv)]}")
                    continue
                ok = bool(src)
                ctx.ob("G1", D + rel, f"{cname}.compute_config", f"loop {lv} over declared range", ok,
                       "" if ok else f"`for {lv} in {norm(lp.iter)[:60]}` does not range over a declared self.*_range attribute: "
                                     f"the returned `{lv}` can lie outside the device range", lp)

        # ---------- G2
        reads, pats = _self_reads(fn)
        # methods of the class called from compute_config (one level)
        for n in ast.walk(fn):
            if isinstance(n, ast.Call) and isinstance(n.func, ast.Attribute) and isinstance(n.func.value, ast.Name) and \
                    n.func.value.id == "self":
                hm = m.method(cname, n.func.attr, required=False)
                if hm is not None:
                    r2, p2 = _self_reads(hm)
                    reads |= r2
                    pats += p2
        for urel, ucls in users:
            chain = _class_chain(ctx, urel, ucls)
            ctx.need(bool(chain), f"class {ucls} vanished from {urel}")
            decl = _declared_ranges(chain)
            for attr, (dm, dn) in sorted(decl.items()):
                if not CONFIG_RANGE.match(attr):
                    continue
                if (ucls, attr) in G2_EXCEPT:
                    ctx.note(f"G2 exception {ucls}.{attr}: {G2_EXCEPT[(ucls, attr)]}")
                    continue
                ok = attr in reads or any(p.match(attr) for p in pats)
                ctx.ob("G2", dm.rel, f"{ucls}", f"{attr} consulted by {cname}.compute_config", ok,
                       "" if ok else f"`{attr}` is declared for {ucls} but never read by {cname}.compute_config: a returned "
                                     f"configuration can violate it", dn)

        # ---------- G4
        mts = _margin_tests(fn, defs)
        ctx.ob("G4", D + rel, f"{cname}.compute_config", "margin test:present", bool(mts),
               "no acceptance test of the form |f' - f| <= f*m found", fn)
        for node, sense, ok, why in mts:
            ctx.ob("G4", D + rel, f"{cname}.compute_config", f"margin form `{norm(node)[:50]}`", ok,
                   "" if ok else f"acceptance test `{norm(node)[:80]}`: {why}", node)

        # ---------- G3
        paths = P.feasible_paths(fn)
        ctx.analysed["paths"] += len(paths)
        rets = [p for p in paths if p.end == "return" and p.end_node.value is not None and norm(p.end_node.value) != "None"]
        ctx.ob("G3", D + rel, f"{cname}.compute_config", "return:present", bool(rets), "compute_config returns nothing", fn)
        falls = [p for p in paths if p.end == "fall"]
        if not reduced:
            ctx.ob("G3", D + rel, f"{cname}.compute_config", "no configuration => raises", not falls,
                   "" if not falls else "compute_config can fall off the end (returns None) instead of refusing", fn)
        mnodes = {id(n): s for n, s, ok, _ in mts}
        vco_pred = lambda e: isinstance(e, ast.Name) and e.id == "vco_freq"
        pfd_pred = lambda e: (isinstance(e, ast.Name) and e.id == "pfd_freq") or \
            (isinstance(e, ast.BinOp) and isinstance(e.op, ast.Div) and norm(e.left) == "self.clkin_freq")
        has_vco_test = _has_window(fn, vco_pred)
        has_pfd_test = _has_window(fn, pfd_pred)
        ctx.ob("G3", D + rel, f"{cname}.compute_config", "VCO window test:present", has_vco_test,
               "no two-sided window test on vco_freq", fn)
        # "collector" searches (Intel, Gowin) record candidates and choose the best afterwards: the obligations are
        # checked on every path *prefix* that reaches the recording statement instead of the return
        def is_commit(e):
            if e[0] != "stmt":
                return False
            st = e[1]
            if isinstance(st, ast.Assign) and isinstance(st.targets[0], ast.Subscript) and \
                    norm(st.targets[0].value) in ("valid_configs", "configs"):
                return True
            if isinstance(st, ast.AugAssign) and norm(st.target) in ("configs", "valid_configs"):
                return True
            if isinstance(st, ast.Expr) and isinstance(st.value, ast.Call) and norm(st.value.func) in ("configs.append", "valid_configs.append"):
                return True
            return False
        collector = any(is_commit(("stmt", n)) for n in walk_no_nested(fn) if isinstance(n, ast.stmt))
        if collector:
            # Y[...] = True only under an accepting margin test, when acceptance is summarised by all(Y)
            all_flags = [norm(n.value.args[0]) for n in walk_no_nested(fn) if isinstance(n, ast.Assign) and
                         isinstance(n.value, ast.Call) and norm(n.value.func) == "all" and n.value.args]
            flag_ok = True
            for y in all_flags:
                sets = []

                def visit(node, guards):
                    for ch in ast.iter_child_nodes(node):
                        if isinstance(ch, ast.If):
                            for b in ch.body:
                                visit_stmt(b, guards + [(ch.test, True)])
                            for b in ch.orelse:
                                visit_stmt(b, guards + [(ch.test, False)])
                        elif isinstance(ch, (ast.FunctionDef, ast.Lambda)):
                            continue
                        else:
                            visit_stmt(ch, guards)

                def visit_stmt(st, guards):
                    if isinstance(st, ast.Assign) and isinstance(st.targets[0], ast.Subscript) and \
                            norm(st.targets[0].value) == y and norm(st.value) == "True":
                        sets.append((st, guards))
                    if isinstance(st, ast.If):
                        for b in st.body:
                            visit_stmt(b, guards + [(st.test, True)])
                        for b in st.orelse:
                            visit_stmt(b, guards + [(st.test, False)])
                    elif isinstance(st, (ast.For, ast.While, ast.With, ast.Try)):
                        for b in getattr(st, "body", []) + getattr(st, "orelse", []):
                            visit_stmt(b, guards)
                for st in fn.body:
                    visit_stmt(st, [])
                if not sets:
                    flag_ok = False
                for st, guards in sets:
                    acc = False
                    for t, pol in guards:
                        for n in ast.walk(t):
                            if id(n) in mnodes and ((mnodes[id(n)] > 0) == pol):
                                # the margin compare must be a conjunct of the test (not under `or`)
                                acc = not any(isinstance(x, ast.BoolOp) and isinstance(x.op, ast.Or) for x in ast.walk(t))
                    if not acc:
                        flag_ok = False
                ctx.ob("G3", D + rel, f"{cname}.compute_config", f"{y}[n] = True only under an accepting margin test", flag_ok,
                       "" if flag_ok else f"an element of `{y}` is set True outside an accepting margin test", fn)
            bad = None
            ncommit = 0
            for p in paths:
                for i, e in enumerate(p.ev):
                    if not is_commit(e):
                        continue
                    ncommit += 1
                    pre = p.tests_before(i)
                    if _bound_facts(pre, vco_pred) != {"lo", "hi"}:
                        bad = (p, "a candidate is recorded without the VCO window test passed in range")
                    if has_pfd_test:
                        if _bound_facts(pre, pfd_pred) != {"lo", "hi"}:
                            bad = (p, "a candidate is recorded without the PFD window test passed in range")
                    entered = any(x[0] == "loop" and x[2] == "enter" and isinstance(x[1], ast.For) and
                                  "self.clkouts" in norm(x[1].iter) for x in p.ev[:i])
                    has_clk_loop = any(isinstance(n, ast.For) and "self.clkouts" in norm(n.iter) for n in walk_no_nested(fn)
                                       if getattr(n, "lineno", 0) < e[1].lineno)
                    if not all_flags and (entered or not has_clk_loop):
                        ms = []
                        for t, pol in pre:
                            tt, pp = t, pol
                            while isinstance(tt, ast.UnaryOp) and isinstance(tt.op, ast.Not):
                                tt, pp = tt.operand, not pp
                            for n in ast.walk(tt):
                                if id(n) in mnodes:
                                    ms.append((mnodes[id(n)], pp))
                        if not ms or not ((ms[-1][0] > 0) == ms[-1][1]):
                            bad = (p, "a candidate is recorded without an accepting margin test on the path")
            ctx.ob("G3", D + rel, f"{cname}.compute_config", "recorded candidate => VCO/PFD in range and margin accepted",
                   bad is None and ncommit > 0, "" if (bad is None and ncommit) else (f"{bad[1]}: {bad[0].show()[-200:]}" if bad else "no commit"), fn)
            continue
        bad = None
        for p in rets:
            if _bound_facts(p.tests_before(len(p.ev)), vco_pred) != {"lo", "hi"}:
                bad = (p, "the VCO window test is not passed in range")
                break
            if has_pfd_test:
                if _bound_facts(p.tests_before(len(p.ev)), pfd_pred) != {"lo", "hi"}:
                    bad = (p, "the PFD window test is not passed in range")
                    break
            entered = any(e[0] == "loop" and e[2] == "enter" and isinstance(e[1], ast.For) and "self.clkouts" in norm(e[1].iter)
                          for e in p.ev)
            if entered:
                ms = []
                for e in p.ev:
                    if e[0] == "test":
                        for n in ast.walk(e[1]):
                            if id(n) in mnodes:
                                pol = e[2]
                                t = e[1]
                                while isinstance(t, ast.UnaryOp) and isinstance(t.op, ast.Not):
                                    t, pol = t.operand, not pol
                                ms.append((mnodes[id(n)], pol))
                if not ms or not ((ms[-1][0] > 0) == ms[-1][1]):
                    bad = (p, "an output is iterated but no accepting margin test lies on the path")
                    break
        ctx.ob("G3", D + rel, f"{cname}.compute_config", "returned => VCO/PFD in range and margin accepted", bad is None,
               "" if bad is None else f"{bad[1]}: {bad[0].show()[-220:]}", fn)

    # ---------- G5
    FINALS = [("xilinx_s7.py", "S7PLL", "xilinx_common.py", "XilinxClocking"), ("xilinx_s7.py", "S7MMCM", "xilinx_common.py", "XilinxClocking"),
              ("xilinx_s6.py", "S6PLL", "xilinx_common.py", "XilinxClocking"), ("xilinx_s6.py", "S6DCM", "xilinx_common.py", "XilinxClocking"),
              ("xilinx_us.py", "USPLL", "xilinx_common.py", "XilinxClocking"), ("xilinx_us.py", "USMMCM", "xilinx_common.py", "XilinxClocking"),
              ("xilinx_usp.py", "USPPLL", "xilinx_common.py", "XilinxClocking"), ("xilinx_usp.py", "USPMMCM", "xilinx_usp.py", "USPMMCM"),
              ("lattice_ecp5.py", "ECP5PLL", "lattice_ecp5.py", "ECP5PLL"), ("lattice_nx.py", "NXPLL", "lattice_nx.py", "NXPLL"),
              ("lattice_ice40.py", "iCE40PLL", "lattice_ice40.py", "iCE40PLL"), ("intel_common.py", "IntelClocking", "intel_common.py", "IntelClocking")]
    for frel, fcls, crel, ccls in FINALS:
        fm = ctx.mod(D + frel)
        fin = fm.method(fcls, "do_finalize")
        comp = ctx.mod(D + crel).method(ccls, "compute_config")
        written = {k for k, _, _ in _config_writes(comp) if k}
        fdefs = _local_defs(fin)

        def keys_in(e, depth=0):
            out = []
            for n in ast.walk(e):
                if isinstance(n, ast.Subscript) and isinstance(n.value, ast.Name) and n.value.id == "config":
                    k = _key_pattern(n.slice)
                    if k:
                        out.append(k)
                if isinstance(n, ast.Name) and n.id in fdefs and depth < 2 and n.id != "config":
                    for v in fdefs[n.id]:
                        out.extend(keys_in(v, depth + 1))
            return out
        read = set(keys_in(fin))
        for k in sorted(read):
            ok = k in written or re.sub(r"\d+", "#", k) in written
            ctx.ob("G5", D + frel, f"{fcls}.do_finalize", f"key {k} written by {ccls}.compute_config", ok,
                   "" if ok else f"do_finalize reads config[{k!r}] which compute_config never writes (written: {sorted(written)})", fin)
        # parameter <- key correspondence
        pairs = []
        for n in ast.walk(fin):
            if isinstance(n, ast.Call) and norm(n.func) == "self.params.update":
                for kw in n.keywords:
                    if kw.arg and kw.arg.startswith("p_"):
                        pairs.append((kw.arg, kw.value, n))
            if isinstance(n, ast.Assign) and len(n.targets) == 1 and isinstance(n.targets[0], ast.Subscript) and \
                    norm(n.targets[0].value) == "self.params":
                kp = _key_pattern(n.targets[0].slice)
                if kp and kp.startswith("p_"):
                    pairs.append((kp, n.value, n))
        for pname, val, node in pairs:
            ks = sorted(set(keys_in(val)))
            if not ks:
                continue
            pp = pname[2:].lower()
            ptoks = set(t for t in re.split(r"[_]", re.sub(r"#", "", pp)) if t)
            pnorm = re.sub(r"\d+|#", "#", pp)
            for k in ks:
                ktoks = set(t for t in re.split(r"[_]", re.sub(r"#|\d+", "", k)) if t)
                knorm = re.sub(r"\d+|#", "#", k)
                ok = ktoks <= set(re.sub(r"\d+", "", t) for t in ptoks) or (pnorm, knorm) in G5_ALIAS or \
                    (re.sub(r"#", "", pnorm), k) in G5_ALIAS or knorm.endswith("_freq") or knorm.endswith("_phase") and "phase" in pnorm
                ctx.ob("G5", D + frel, f"{fcls}.do_finalize", f"{pname} <- config[{k}]", ok,
                       "" if ok else f"parameter {pname} is fed from config[{k!r}]: names do not correspond (tokens {sorted(ktoks)} "
                                     f"not in {sorted(ptoks)}) and the pair is not in the vendor alias table", node)
        # a parameter emitted as the PRODUCT of two configuration entries: the search bounds each factor by its own declared range,
        # nothing bounds the product -- sound only while all but one factor have a one-value range (S6DCM folds the fixed input
        # divider 1 into CLKFX_DIVIDE)
        for pname, val, node in pairs:
            for mul in [n for n in ast.walk(val) if isinstance(n, ast.BinOp) and isinstance(n.op, ast.Mult)]:
                kl, kr = sorted(set(keys_in(mul.left))), sorted(set(keys_in(mul.right)))
                if not kl or not kr:
                    continue
                wide = []
                for k in kl + kr:
                    rng = _declared_range(ctx, [(D + frel, fcls), (D + crel, ccls)], re.sub(r"\d+|#", "", k))
                    if rng is None or rng[1] - rng[0] != 1:
                        wide.append((k, rng))
                ok = len(wide) <= 1
                ctx.ob("G5", D + frel, f"{fcls}.do_finalize", f"{pname}: product of configuration entries has at most one searched factor", ok,
                       "" if ok else f"{pname} = {norm(mul)}: " + ", ".join(f"config[{k!r}] ranges over {r_ if r_ else 'an undeclared range'}" for k, r_ in wide) +
                                     f": each factor was checked against its own range, the emitted product can leave the primitive's range", node)
