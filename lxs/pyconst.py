"""lxs.pyconst -- constant propagation over the statements of one function.

The generators build small Python-level tables (channel -> direction, burst -> burst, suffix letters, ...) with literals,
comprehensions or loops; which of these a maintainer uses does not matter, the table does.  `run(fn)` interprets the statements of
`fn` in order with an own, closed semantics -- nothing of the repository is imported or executed -- and tracks only names whose
value is a compile-time constant (numbers, strings, None, tuples/lists/sets/dicts of constants).  Everything else is UNKNOWN and
poisons what it flows into; a loop whose iterable is unknown, a branch whose test is unknown or any statement kind outside the
supported set makes every name assigned inside it UNKNOWN.  The result is {name: value} for the names that are constant at the
end of the function body."""
import ast


class _Unknown:
    def __repr__(self):
        return "UNKNOWN"


UNKNOWN = _Unknown()
_LIMIT = 200000


class _Stop(Exception):
    pass


class Unknowable(Exception):
    """exact interpretation met something it cannot decide"""


class Raised(Exception):
    """the interpreted code (or a modelled callable) raises: propagates to the outermost call(), which reports ("raise", None)"""


def _assigned_names(nodes):
    out = set()
    for n in nodes:
        for x in ast.walk(n):
            if isinstance(x, ast.Name) and isinstance(x.ctx, (ast.Store, ast.Del)):
                out.add(x.id)
            elif isinstance(x, (ast.Subscript, ast.Attribute)) and isinstance(x.ctx, ast.Store):
                b = x
                while isinstance(b, (ast.Subscript, ast.Attribute)):
                    b = b.value
                if isinstance(b, ast.Name):
                    out.add(b.id)
            elif isinstance(x, ast.Call) and isinstance(x.func, ast.Attribute) and isinstance(x.func.value, ast.Name) and \
                    x.func.attr in ("append", "extend", "add", "update", "insert", "pop", "remove", "clear", "setdefault", "sort", "reverse"):
                out.add(x.func.value.id)
    return out


class Obj:
    """an object built by a constructor call the interpreter does not look into (objects=True): an opaque token"""
    def __init__(self, cls, args, kwargs, n, line):
        self.cls, self.args, self.kwargs, self.n, self.line = cls, args, kwargs, n, line

    def __repr__(self):
        return f"<{self.cls}#{self.n}>"


class Tok:
    """a named opaque input token (an element of a symbolic parameter list)"""
    def __init__(self, kind, n):
        self.kind, self.n = kind, n

    def __repr__(self):
        return f"{self.kind}{self.n}"

    def __eq__(self, o):
        return isinstance(o, Tok) and (o.kind, o.n) == (self.kind, self.n)

    def __hash__(self):
        return hash((self.kind, self.n))


class NS(dict):
    """an object with constant attributes (e.g. `self` with the attributes a method reads); attributes listed in `frozen` keep
    their given value whatever the interpreted code stores into them"""
    frozen = ()


class Key(NS):
    """a model object that can be used as a dictionary key / set member (identity semantics, like most Python objects)"""
    def __hash__(self):
        return id(self)

    def __eq__(self, o):
        return self is o

    def __ne__(self, o):
        return self is not o


class Native:
    """a callable attribute with a given constant behaviour (e.g. payload.flatten() -> a list of field tokens)"""
    def __init__(self, fn):
        self.fn = fn


class Gen(list):
    """the remaining items of a generator expression (next() consumes from the front)"""


class Interp:
    def __init__(self, env=None, objects=False, exact=False, funcs=None):
        self.funcs = funcs or {}        # name -> FunctionDef of module-level functions that may be interpreted when called
        self.env = dict(env or {})
        self.steps = 0
        self.objects = objects
        self.created = []
        self.yields = None
        self.closures = {}
        self.classes = {}       # name -> ClassDef of module classes that may be instantiated (model objects with their own methods)
        self.base = None        # module-level constants / models given to call(): visible in module-level functions called from here
        self.exact = exact      # exact: follow return / raise / continue precisely, give up (Unknowable) on anything unknown
        self.result = None

    # ---- expressions
    def ev(self, e):
        self.steps += 1
        if self.steps > _LIMIT:
            raise _Stop()
        try:
            return self._ev(e)
        except (_Stop, RecursionError, Raised):
            raise
        except Exception:
            return UNKNOWN

    def _ev(self, e):
        U = UNKNOWN
        if isinstance(e, ast.Constant):
            return e.value
        if isinstance(e, ast.Name):
            if e.id not in self.env and e.id in ("list", "dict", "set", "tuple", "int", "str", "float", "bool"):
                return {"list": list, "dict": dict, "set": set, "tuple": tuple, "int": int, "str": str, "float": float, "bool": bool}[e.id]
            return self.env.get(e.id, U)
        if isinstance(e, (ast.Tuple, ast.List, ast.Set)):
            vals = []
            for x in e.elts:
                if isinstance(x, ast.Starred):
                    v = self.ev(x.value)
                    if v is U:
                        return U
                    vals.extend(list(v))
                else:
                    v = self.ev(x)
                    if v is U:
                        return U
                    vals.append(v)
            return tuple(vals) if isinstance(e, ast.Tuple) else (list(vals) if isinstance(e, ast.List) else set(vals))
        if isinstance(e, ast.Dict):
            d = {}
            for k, v in zip(e.keys, e.values):
                if k is None:
                    vv = self.ev(v)
                    if vv is U:
                        return U
                    d.update(vv)
                    continue
                kk, vv = self.ev(k), self.ev(v)
                if kk is U or vv is U:
                    return U
                d[kk] = vv
            return d
        if isinstance(e, ast.UnaryOp):
            v = self.ev(e.operand)
            if v is U:
                return U
            return {ast.USub: lambda: -v, ast.UAdd: lambda: +v, ast.Invert: lambda: ~v, ast.Not: lambda: not v}[type(e.op)]()
        if isinstance(e, ast.BinOp):
            a, b = self.ev(e.left), self.ev(e.right)
            if a is U or b is U:
                return U
            ops = {ast.Add: lambda: a + b, ast.Sub: lambda: a - b, ast.Mult: lambda: a * b, ast.FloorDiv: lambda: a // b,
                   ast.Div: lambda: a / b, ast.Mod: lambda: a % b, ast.LShift: lambda: a << b, ast.RShift: lambda: a >> b,
                   ast.Pow: lambda: a ** b if abs(b) < 64 else U, ast.BitOr: lambda: a | b, ast.BitAnd: lambda: a & b,
                   ast.BitXor: lambda: a ^ b}
            return ops[type(e.op)]()
        if isinstance(e, ast.BoolOp):
            last = U
            for x in e.values:
                last = self.ev(x)
                if last is U:
                    return U
                if isinstance(e.op, ast.And) and not last:
                    return last
                if isinstance(e.op, ast.Or) and last:
                    return last
            return last
        if isinstance(e, ast.Compare):
            left = self.ev(e.left)
            if left is U:
                return U
            for op, c in zip(e.ops, e.comparators):
                r = self.ev(c)
                if r is U:
                    return U
                ok = {ast.Eq: lambda: left == r, ast.NotEq: lambda: left != r, ast.Lt: lambda: left < r, ast.LtE: lambda: left <= r,
                      ast.Gt: lambda: left > r, ast.GtE: lambda: left >= r, ast.In: lambda: left in r, ast.NotIn: lambda: left not in r,
                      ast.Is: lambda: left is r, ast.IsNot: lambda: left is not r}[type(op)]()
                if not ok:
                    return False
                left = r
            return True
        if isinstance(e, ast.IfExp):
            t = self.ev(e.test)
            if t is U:
                return U
            return self.ev(e.body if t else e.orelse)
        if isinstance(e, ast.Subscript):
            v = self.ev(e.value)
            if v is U:
                return U
            if isinstance(e.slice, ast.Slice):
                lo = self.ev(e.slice.lower) if e.slice.lower is not None else None
                hi = self.ev(e.slice.upper) if e.slice.upper is not None else None
                st = self.ev(e.slice.step) if e.slice.step is not None else None
                if U in (lo, hi, st):
                    return U
                if isinstance(v, NS):
                    g = v.get("__getitem__")
                    return g.fn(slice(lo, hi, st)) if isinstance(g, Native) else U
                return v[lo:hi:st]
            k = self.ev(e.slice)
            if k is U:
                return U
            if isinstance(v, NS):
                g = v.get("__getitem__")
                return g.fn(k) if isinstance(g, Native) else U
            return v[k]
        if isinstance(e, ast.JoinedStr):
            out = ""
            for x in e.values:
                if isinstance(x, ast.Constant):
                    out += str(x.value)
                elif isinstance(x, ast.FormattedValue) and x.format_spec is None and x.conversion == -1:
                    v = self.ev(x.value)
                    if v is U:
                        return U
                    out += format(v)
                elif isinstance(x, ast.FormattedValue) and x.conversion in (-1, 115, 114):
                    # a format spec ({v:08x}, {v:>{w}}) and / or !s / !r on a constant of a plain type
                    v = self.ev(x.value)
                    spec = self.ev(x.format_spec) if x.format_spec is not None else ""
                    if v is U or spec is U or not isinstance(spec, str) or not isinstance(v, (int, float, str, bool)):
                        return U
                    if x.conversion == 115:
                        v = str(v)
                    elif x.conversion == 114:
                        v = repr(v)
                    try:
                        out += format(v, spec)
                    except (ValueError, TypeError):
                        return U
                else:
                    return U
            return out
        if isinstance(e, ast.Attribute):
            v = self.ev(e.value)
            if isinstance(v, NS):
                return v.get(e.attr, U)
            return U
        if isinstance(e, ast.GeneratorExp):
            v = self._comp(e)
            return v if v is U else Gen(v)
        if isinstance(e, (ast.ListComp, ast.SetComp, ast.DictComp)):
            return self._comp(e)
        if isinstance(e, ast.Call):
            return self._call(e)
        return U

    def _comp(self, e):
        U = UNKNOWN
        out = []
        saved = dict(self.env)

        def rec(k):
            if k == len(e.generators):
                if isinstance(e, ast.DictComp):
                    kk, vv = self.ev(e.key), self.ev(e.value)
                    if kk is U or vv is U:
                        raise ValueError
                    out.append((kk, vv))
                else:
                    v = self.ev(e.elt)
                    if v is U:
                        raise ValueError
                    out.append(v)
                return
            g = e.generators[k]
            it = self.ev(g.iter)
            if it is U:
                raise ValueError
            for item in list(it):
                if not self._bind(g.target, item):
                    raise ValueError
                ok = True
                for c in g.ifs:
                    t = self.ev(c)
                    if t is U:
                        raise ValueError
                    if not t:
                        ok = False
                        break
                if ok:
                    rec(k + 1)
        try:
            rec(0)
        except ValueError:
            self.env = saved
            return U
        self.env = saved
        if isinstance(e, ast.DictComp):
            return dict(out)
        if isinstance(e, ast.SetComp):
            return set(out)
        return list(out)

    def _call(self, e):
        U = UNKNOWN
        if self.objects:
            cn = e.func.id if isinstance(e.func, ast.Name) else (e.func.attr if isinstance(e.func, ast.Attribute) else "")
            if cn[:1].isupper() and cn not in self.env:
                args = []
                for a in e.args:
                    if isinstance(a, ast.Starred):
                        v = self.ev(a.value)
                        args.extend(list(v) if v is not U and isinstance(v, (list, tuple)) else [U])
                    else:
                        args.append(self.ev(a))
                kws = {k.arg: self.ev(k.value) for k in e.keywords if k.arg}
                for k in e.keywords:
                    if k.arg is None:                       # **{..}: folded in when the mapping is a constant
                        v = self.ev(k.value)
                        if isinstance(v, dict) and not isinstance(v, NS) and all(isinstance(x, str) for x in v):
                            kws.update(v)
                        else:
                            kws["**"] = U
                o = Obj(cn, tuple(args), kws, len(self.created), getattr(e, "lineno", 0))
                self.created.append(o)
                return o
        if isinstance(e.func, ast.Name) and e.func.id in self.classes and e.func.id not in self.env:
            # a class of the interpreted module: a model object whose methods are the class's own
            cdef = self.classes[e.func.id]
            obj = Key(__cls__=(cdef.name,), __classdef__=cdef)
            init = [f for f in cdef.body if isinstance(f, ast.FunctionDef) and f.name == "__init__"]
            if init:
                r = self._method(obj, init[0], e)
                if r is UNKNOWN:
                    return UNKNOWN
            return obj
        if isinstance(e.func, ast.Attribute) and self.classes:
            recv0 = self.ev(e.func.value)
            if isinstance(recv0, NS) and e.func.attr not in recv0 and recv0.get("__classdef__") is not None:
                meth = [f for f in recv0["__classdef__"].body if isinstance(f, ast.FunctionDef) and f.name == e.func.attr]
                if meth:
                    return self._method(recv0, meth[0], e)
        native = None
        if isinstance(e.func, ast.Name) and isinstance(self.env.get(e.func.id), Native):
            native = self.env[e.func.id]
        elif isinstance(e.func, ast.Attribute) and e.keywords:
            r_ = self.ev(e.func.value)
            if isinstance(r_, NS) and isinstance(r_.get(e.func.attr), Native):
                native = r_[e.func.attr]
        if native is not None:
            # a modelled callable (a constructor or method whose behaviour the rule supplies): positional and keyword arguments
            a_, kw_ = [], {}
            for a in e.args:
                if isinstance(a, ast.Starred):
                    v = self.ev(a.value)
                    if v is U or not isinstance(v, (list, tuple)):
                        return U
                    a_.extend(v)
                    continue
                a_.append(self.ev(a))
            for k in e.keywords:
                if k.arg is None:
                    return U
                kw_[k.arg] = self.ev(k.value)
            if any(v is U for v in a_) or any(v is U for v in kw_.values()):
                return U
            return native.fn(*a_, **kw_)
        if isinstance(e.func, ast.Attribute) and e.func.attr == "format" and e.keywords:
            # "...{name}...".format(name=..): keywords (and positionals) are constants
            recv = self.ev(e.func.value)
            if isinstance(recv, str):
                a_ = [self.ev(a) for a in e.args if not isinstance(a, ast.Starred)]
                kw_ = {k.arg: self.ev(k.value) for k in e.keywords if k.arg is not None}
                if len(a_) == len(e.args) and len(kw_) == len(e.keywords) and all(v is not U and not isinstance(v, (NS, Obj, Tok)) for v in a_ + list(kw_.values())):
                    return recv.format(*a_, **kw_)
            return U
        if isinstance(e.func, ast.Attribute) and e.func.attr == "sort" and e.keywords and not e.args:
            # xs.sort(key=lambda .., reverse=..): sorted() on the same arguments, stored back in place
            lst = self.ev(e.func.value)
            if isinstance(lst, list):
                r = self._call(ast.Call(func=ast.Name(id="sorted", ctx=ast.Load()), args=[e.func.value], keywords=e.keywords))
                if isinstance(r, list):
                    lst[:] = r
                    return None
            return U
        if e.keywords and not (isinstance(e.func, ast.Name) and (e.func.id in ("sorted", "dict", "max", "min") or e.func.id in MODELS or
                                                                 e.func.id in self.funcs)):
            return U
        args = []
        is_isinst = isinstance(e.func, ast.Name) and e.func.id == "isinstance" and "isinstance" not in self.env and len(e.args) == 2
        for k_, a in enumerate(e.args):
            if is_isinst and k_ == 1:
                continue            # a class expression: read syntactically below
            if isinstance(a, ast.Starred):
                v = self.ev(a.value)
                if v is U:
                    return U
                args.extend(list(v))
            else:
                v = self.ev(a)
                if v is U:
                    return U
                args.append(v)
        f = e.func
        if isinstance(f, ast.Name):
            fn = f.id
            if fn in self.env:
                return U
            if fn in self.funcs:
                fdef = self.funcs[fn]
                names = [x.arg for x in fdef.args.posonlyargs + fdef.args.args]
                bound = dict(zip(names, args))
                for k in e.keywords:
                    v = self.ev(k.value)
                    if v is U or k.arg is None:
                        return U
                    bound[k.arg] = v
                try:
                    r = call(fdef, bound, consts=self.closures.get(fn, self.base), funcs=self.funcs, budget=self)
                except Unknowable:
                    if self.exact:
                        raise
                    return U
                if r[0] == "raise":
                    if self.exact:
                        raise Raised(fn)
                    return U
                return r[1]
            if fn in MODELS:
                kw = {}
                for k in e.keywords:
                    v = self.ev(k.value)
                    if v is U or k.arg is None:
                        return U
                    kw[k.arg] = v
                return MODELS[fn](*args, **kw)
            if fn == "dict" and e.keywords and not args:
                d = {}
                for k in e.keywords:
                    v = self.ev(k.value)
                    if v is U or k.arg is None:
                        return U
                    d[k.arg] = v
                return d
            if fn in ("sorted", "min", "max") and e.keywords:
                rev, keyf = False, None
                for k in e.keywords:
                    if k.arg == "reverse" and fn == "sorted":
                        r = self.ev(k.value)
                        if r is U:
                            return U
                        rev = bool(r)
                    elif k.arg == "key" and isinstance(k.value, ast.Call) and isinstance(k.value.func, (ast.Name, ast.Attribute)) and \
                            (k.value.func.id if isinstance(k.value.func, ast.Name) else k.value.func.attr) in ("itemgetter", "attrgetter") and \
                            len(k.value.args) == 1 and isinstance(k.value.args[0], ast.Constant):
                        sel_ = k.value.args[0].value
                        by_attr = (k.value.func.id if isinstance(k.value.func, ast.Name) else k.value.func.attr) == "attrgetter"

                        def keyf(x, sel_=sel_, by_attr=by_attr):
                            return x[sel_]
                    elif k.arg == "key" and isinstance(self.ev(k.value), Native):
                        keyf = self.ev(k.value).fn          # key=ns.get_name: a modelled callable
                    elif k.arg == "key" and isinstance(k.value, ast.Name) and k.value.id in (self.funcs or {}):
                        fname_ = k.value.id             # key=<an interpreted function of the module / a local helper>

                        def keyf(x, fname_=fname_):
                            saved = self.env
                            self.env = dict(saved)
                            self.env["__sort_item"] = x
                            try:
                                v = self.ev(ast.Call(func=ast.Name(id=fname_, ctx=ast.Load()),
                                                     args=[ast.Name(id="__sort_item", ctx=ast.Load())], keywords=[]))
                            finally:
                                self.env = saved
                            if v is U:
                                raise Unknowable("sort key")
                            return v
                    elif k.arg == "key" and isinstance(k.value, ast.Lambda) and len(k.value.args.args) == 1 and not k.value.args.defaults:
                        lam = k.value

                        def keyf(x, lam=lam):
                            saved = self.env
                            self.env = dict(saved)
                            self.env[lam.args.args[0].arg] = x
                            try:
                                v = self.ev(lam.body)
                            finally:
                                self.env = saved
                            if v is U:
                                raise Unknowable("sort key")
                            return v
                    else:
                        return U
                if len(args) != 1:
                    return U
                try:
                    if fn == "sorted":
                        return sorted(args[0], key=keyf, reverse=rev)
                    return (min if fn == "min" else max)(args[0], key=keyf)
                except Unknowable:
                    return U
            if e.keywords:
                return U
            simple = {"len": len, "sorted": sorted, "list": list, "tuple": tuple, "set": set, "dict": dict, "reversed": lambda x: list(reversed(x)),
                      "enumerate": lambda *a: list(enumerate(*a)), "zip": lambda *a: list(zip(*a)), "range": lambda *a: list(range(*a)),
                      "int": int, "float": float, "str": str, "bool": bool, "abs": abs, "min": min, "max": max, "sum": sum,
                      "any": any, "all": all, "round": round, "divmod": divmod, "frozenset": frozenset,
                      "hex": hex, "bin": bin, "oct": oct, "ord": ord, "chr": chr,
                      "combinations": lambda xs, r: list(__import__("itertools").combinations(list(xs), r))}
            if fn == "len" and len(args) == 1 and isinstance(args[0], NS):
                return args[0].get("__len__", U)
            if fn == "getattr" and len(args) in (2, 3) and isinstance(args[0], NS) and isinstance(args[1], str):
                if args[1] in args[0]:
                    return args[0][args[1]]
                return args[2] if len(args) == 3 else U
            if fn == "hasattr" and len(args) == 2 and isinstance(args[0], NS) and isinstance(args[1], str):
                return args[1] in args[0] and args[0][args[1]] is not U
            if fn == "isinstance" and len(e.args) == 2 and args and isinstance(args[0], NS) and "__cls__" in args[0]:
                c = e.args[1]
                names_ = [x.id if isinstance(x, ast.Name) else getattr(x, "attr", None) for x in (c.elts if isinstance(c, ast.Tuple) else [c])]
                return any(n_ in args[0]["__cls__"] for n_ in names_)
            if fn == "iter" and len(args) == 1 and isinstance(args[0], (list, tuple, dict, set)):
                return Gen(list(args[0]))
            if fn == "isinstance" and len(e.args) == 2 and args and not isinstance(args[0], (NS, Obj, Tok, _Unknown)):
                # a plain constant: an instance of the builtin types only
                c = e.args[1]
                names_ = [x.id if isinstance(x, ast.Name) else getattr(x, "attr", None) for x in (c.elts if isinstance(c, ast.Tuple) else [c])]
                bt = {"str": str, "int": int, "float": float, "bool": bool, "list": list, "tuple": tuple, "dict": dict, "set": set,
                      "Iterable": (list, tuple, dict, set, Gen)}
                return any(n_ in bt and isinstance(args[0], bt[n_]) for n_ in names_)
            if fn == "next" and args and isinstance(args[0], Gen):
                if args[0]:
                    return args[0].pop(0)
                return args[1] if len(args) > 1 else U
            if fn in simple:
                if fn == "range" and args and max(abs(int(a)) for a in args) > 4096:
                    return U
                return simple[fn](*args)
            return U
        if isinstance(f, ast.Attribute) and isinstance(f.value, ast.Name) and f.value.id == "math" and "math" not in self.env and \
                f.attr in MATH and not e.keywords:
            return MATH[f.attr](*args)
        if isinstance(f, ast.Attribute):
            recv = self.ev(f.value)
            if recv is U:
                return U
            meth = f.attr
            if recv is dict and meth == "fromkeys" and 1 <= len(args) <= 2:
                return dict.fromkeys(list(args[0]), args[1] if len(args) == 2 else None)
            if isinstance(recv, NS):
                h = recv.get(meth, U)
                return h.fn(*args) if isinstance(h, Native) else U
            pure = {dict: ("items", "keys", "values", "get", "copy"), list: ("index", "count", "copy"), tuple: ("index", "count"),
                    set: ("union", "intersection", "difference", "issubset", "issuperset", "copy"),
                    int: ("bit_length",), str: ("format", "upper", "lower", "replace", "split", "join", "startswith", "endswith", "strip", "zfill")}
            for ty, ms in pure.items():
                if isinstance(recv, ty) and meth in ms:
                    r = getattr(recv, meth)(*args)
                    return list(r) if meth in ("items", "keys", "values") else r
            mut = {dict: ("update", "setdefault", "pop", "clear"), list: ("append", "extend", "insert", "pop", "remove", "clear", "sort", "reverse"),
                   set: ("add", "update", "discard", "remove", "clear")}
            for ty, ms in mut.items():
                if isinstance(recv, ty) and meth in ms:
                    return getattr(recv, meth)(*args)        # recv is the object stored in env: mutated in place
        return U

    def _method(self, obj, fdef, e):
        """interpret method `fdef` of a model object on the arguments of call node `e`"""
        params = [a.arg for a in fdef.args.posonlyargs + fdef.args.args]
        bound = {params[0]: obj}
        pos = []
        for a in e.args:
            if isinstance(a, ast.Starred):
                return UNKNOWN
            pos.append(self.ev(a))
        bound.update(dict(zip(params[1:], pos)))
        for k in e.keywords:
            if k.arg is None:
                return UNKNOWN
            bound[k.arg] = self.ev(k.value)
        if any(v is UNKNOWN for v in bound.values()):
            return UNKNOWN
        try:
            r = call(fdef, bound, consts=self.base, funcs=self.funcs, budget=self, classes=self.classes)
        except Unknowable:
            if self.exact:
                raise
            return UNKNOWN
        if r[0] == "raise":
            if self.exact:
                raise Raised(fdef.name)
            return UNKNOWN
        return r[1]

    # ---- statements
    def _bind(self, target, value):
        if isinstance(target, ast.Name):
            self.env[target.id] = value
            return True
        if isinstance(target, (ast.Tuple, ast.List)):
            try:
                vals = list(value)
            except TypeError:
                return False
            if any(isinstance(t, ast.Starred) for t in target.elts) or len(vals) != len(target.elts):
                return False
            return all(self._bind(t, v) for t, v in zip(target.elts, vals))
        return False

    def _poison(self, nodes):
        for n in _assigned_names(nodes):
            self.env[n] = UNKNOWN

    def run(self, body):
        for st in body:
            self.steps += 1
            if self.steps > _LIMIT:
                raise _Stop()
            if isinstance(st, (ast.Pass, ast.Import, ast.ImportFrom, ast.Assert, ast.Global, ast.Nonlocal)):
                continue
            if isinstance(st, (ast.Return, ast.Raise)):
                if self.exact:
                    if isinstance(st, ast.Raise):
                        self.result = ("raise", None)
                    else:
                        v = self.ev(st.value) if st.value is not None else None
                        if v is UNKNOWN:
                            raise Unknowable(f"return value at L{st.lineno}")
                        self.result = ("return", v)
                return "exit"
            if isinstance(st, (ast.Break, ast.Continue)):
                return "break" if isinstance(st, ast.Break) else "continue"
            if isinstance(st, ast.FunctionDef) and not st.decorator_list:
                # a local helper: interpreted when called, reading the enclosing names as they are at the call (late binding)
                self.funcs = dict(self.funcs)
                self.funcs[st.name] = st
                self.closures[st.name] = self.env
                self.env.pop(st.name, None)
                continue
            if isinstance(st, (ast.FunctionDef, ast.ClassDef)):
                self.env[st.name] = UNKNOWN
                continue
            if isinstance(st, ast.Expr) and isinstance(st.value, ast.Yield) and self.exact and self.yields is not None:
                v = self.ev(st.value.value) if st.value.value is not None else None
                if v is UNKNOWN:
                    raise Unknowable(f"yield at L{st.lineno}")
                self.yields.append(v)
                if len(self.yields) > 20000:
                    raise _Stop()
                continue
            if isinstance(st, ast.Expr):
                if isinstance(st.value, ast.Call):
                    call_ = st.value
                    r = self.ev(call_)          # mutators of known containers act in place; constructor calls are recorded
                    if r is UNKNOWN and isinstance(call_.func, ast.Attribute) and call_.func.attr in (
                            "append", "extend", "add", "update", "insert", "pop", "remove", "clear", "setdefault", "sort", "reverse", "discard"):
                        # a mutation whose effect is not known: the container is unknown from here on
                        root = call_.func.value
                        if isinstance(root, ast.Name):
                            if self.env.get(root.id, UNKNOWN) is not UNKNOWN:
                                self.env[root.id] = UNKNOWN
                        elif isinstance(root, ast.Attribute):
                            obj = self.ev(root.value)
                            if isinstance(obj, NS) and root.attr not in obj.frozen:
                                obj[root.attr] = UNKNOWN
                continue
            if isinstance(st, ast.Assign):
                v = self.ev(st.value)
                if isinstance(v, (list, dict, set)) and len(st.targets) > 1:
                    v = UNKNOWN         # aliasing of a mutable value: not tracked
                for t in st.targets:
                    self._store(t, v)
                continue
            if isinstance(st, ast.AnnAssign):
                if st.value is not None:
                    self._store(st.target, self.ev(st.value))
                continue
            if isinstance(st, ast.AugAssign):
                if isinstance(st.target, ast.Name):
                    cur = self.env.get(st.target.id, UNKNOWN)
                    v = self.ev(ast.BinOp(left=ast.Name(id=st.target.id, ctx=ast.Load()), op=st.op, right=st.value))
                    if isinstance(cur, list) and isinstance(st.op, ast.Add) and v is not UNKNOWN:
                        cur[:] = v
                    else:
                        self.env[st.target.id] = v
                else:
                    rhs = self.ev(st.value)       # constructor calls on the right-hand side are still recorded
                    cur = self.ev(st.target) if isinstance(st.target, (ast.Attribute, ast.Subscript)) else UNKNOWN
                    if cur is not UNKNOWN and rhs is not UNKNOWN and isinstance(cur, (int, float, str, tuple)) and not isinstance(cur, bool):
                        # x.n += 1 / d[k] += "s": an immutable value replaced in its container
                        v = self.ev(ast.BinOp(left=st.target, op=st.op, right=st.value))
                        self._store(st.target, v)
                        continue
                    if isinstance(cur, list) and isinstance(st.op, ast.Add) and rhs is not UNKNOWN:
                        # obj.items += [..] extends in place; `self.submodules += module` (Migen collections) appends one element
                        if isinstance(rhs, (list, tuple)):
                            cur.extend(rhs)
                        else:
                            cur.append(rhs)
                        continue
                    obj = self.ev(st.target.value) if isinstance(st.target, ast.Attribute) else UNKNOWN
                    if isinstance(obj, NS):
                        if st.target.attr not in obj.frozen:
                            obj[st.target.attr] = UNKNOWN       # self.comb += ...: only that attribute changes
                    else:
                        self._poison([st])
                continue
            if isinstance(st, ast.If):
                t = self.ev(st.test)
                if t is UNKNOWN:
                    if self.exact:
                        raise Unknowable(f"test at L{st.lineno}")
                    self._poison(st.body + st.orelse)
                    continue
                r = self.run(st.body if t else st.orelse)
                if r:
                    return r
                continue
            if isinstance(st, ast.For):
                it = self.ev(st.iter)
                if it is UNKNOWN or (st.orelse and not self.exact):
                    if self.exact:
                        raise Unknowable(f"loop at L{st.lineno}")
                    self._poison([st])
                    continue
                try:
                    items = list(it)
                except TypeError:
                    self._poison([st])
                    continue
                broke = False
                for item in items:
                    if not self._bind(st.target, item):
                        self._poison([st])
                        broke = True
                        break
                    r = self.run(st.body)
                    if r == "break":
                        broke = True
                        break
                    if r == "exit":
                        if self.exact:
                            return "exit"
                        self._poison([st])
                        return None
                if st.orelse and not broke:
                    r = self.run(st.orelse)
                    if r:
                        return r
                continue
            if isinstance(st, ast.While) and self.exact and not st.orelse:
                while True:
                    self.steps += 1
                    if self.steps > _LIMIT:
                        raise _Stop()
                    t = self.ev(st.test)
                    if t is UNKNOWN:
                        raise Unknowable(f"while test at L{st.lineno}")
                    if not t:
                        break
                    r = self.run(st.body)
                    if r == "break":
                        break
                    if r == "exit":
                        return "exit"
                continue
            if isinstance(st, ast.With) and self.exact and len(st.items) == 1:
                # `with <modelled resource> as name:` -- the resource is a model value the rule supplies (e.g. an in-memory file)
                v = self.ev(st.items[0].context_expr)
                if v is UNKNOWN:
                    raise Unknowable(f"with at L{st.lineno}")
                if st.items[0].optional_vars is not None:
                    self._store(st.items[0].optional_vars, v)
                r = self.run(st.body)
                if r:
                    return r
                continue
            # anything else (while, with, try, match, delete ...): whatever it assigns is unknown
            if self.exact:
                raise Unknowable(f"statement at L{st.lineno}")
            self._poison([st])
        return None

    def _store(self, t, v):
        if isinstance(t, ast.Name):
            self.env[t.id] = v
        elif isinstance(t, (ast.Tuple, ast.List)):
            if v is UNKNOWN or not self._bind(t, v):
                self._poison([t])
        elif isinstance(t, ast.Subscript) and isinstance(t.value, ast.Name):
            cont = self.env.get(t.value.id, UNKNOWN)
            k = self.ev(t.slice) if not isinstance(t.slice, ast.Slice) else UNKNOWN
            if cont is UNKNOWN or k is UNKNOWN or v is UNKNOWN or not isinstance(cont, (dict, list)):
                self.env[t.value.id] = UNKNOWN
            else:
                try:
                    cont[k] = v
                except Exception:
                    self.env[t.value.id] = UNKNOWN
        elif isinstance(t, ast.Attribute):
            obj = self.ev(t.value)
            if isinstance(obj, NS):
                if t.attr not in obj.frozen:
                    obj[t.attr] = v
            else:
                self._poison([t])
        elif isinstance(t, ast.Subscript):
            cont = self.ev(t.value)            # self.table[k] = v: the container is an attribute of a model object
            k = self.ev(t.slice) if not isinstance(t.slice, ast.Slice) else UNKNOWN
            if isinstance(cont, (dict, list)) and k is not UNKNOWN and v is not UNKNOWN:
                try:
                    cont[k] = v
                    return
                except Exception:
                    pass
            self._poison([t])


def run(fn, env=None):
    """{name: constant} after interpreting the body of function node `fn` (parameters are unknown unless given in env)."""
    it = Interp(env)
    try:
        it.run(fn.body)
    except (_Stop, RecursionError):
        return {}
    return {k: v for k, v in it.env.items() if v is not UNKNOWN}


def module_consts(tree):
    """constants bound by plain module-level assignments"""
    it = Interp()
    try:
        it.run([st for st in tree.body if isinstance(st, (ast.Assign, ast.AnnAssign))])
    except (_Stop, RecursionError):
        return {}
    return {k: v for k, v in it.env.items() if v is not UNKNOWN}


def _log2_int(n, need_pow2=True):
    """Migen's log2_int (embedded model): ceil(log2(n)), refusing non-powers of two unless told otherwise"""
    if n == 0:
        return 0
    r = (n - 1).bit_length()
    if need_pow2 and (1 << r) != n:
        raise ValueError("not a power of 2")
    return r


def _bits_for(n, require_sign_bit=False):
    """Migen's bits_for (embedded model)"""
    if n > 0:
        r = _log2_int(n + 1, False)
    else:
        require_sign_bit = True
        r = _log2_int(-n, False)
    return r + 1 if require_sign_bit else r


MODELS = {"log2_int": _log2_int, "bits_for": _bits_for}
import math as _math
MATH = {"floor": _math.floor, "ceil": _math.ceil, "log2": _math.log2, "sqrt": _math.sqrt, "gcd": _math.gcd, "isclose": _math.isclose}


def call(fn, args, consts=None, funcs=None, budget=None, classes=None):
    """Interpret function node `fn` exactly on constant arguments {param: value}: ("return", value) | ("raise", None); raises
    Unknowable when the outcome depends on something that is not a compile-time constant."""
    env = dict(consts or {})
    a = fn.args
    names = [x.arg for x in a.posonlyargs + a.args]
    defaults = dict(zip(names[len(names) - len(a.defaults):], a.defaults))
    it = Interp(env, exact=True, funcs=funcs)
    it.base = consts
    it.classes = classes or (budget.classes if budget is not None else {})
    is_gen = any(isinstance(x, (ast.Yield, ast.YieldFrom)) for x in ast.walk(fn))
    if is_gen:
        it.yields = []
    if budget is not None:
        it.steps = budget.steps
    for n in names:
        if n in args:
            it.env[n] = args[n]
        elif n in defaults:
            it.env[n] = it.ev(defaults[n])
        else:
            it.env[n] = UNKNOWN
    try:
        it.run(fn.body)
    except (_Stop, RecursionError):
        raise Unknowable("interpreter limit")
    except Raised:
        if budget is not None:
            budget.steps = it.steps
        return ("raise", None)
    if budget is not None:
        budget.steps = it.steps
    if is_gen:
        return ("return", Gen(it.yields))
    return it.result if it.result is not None else ("return", None)


def bind(me, cdef, names, consts=None, funcs=None):
    """Give the model object `me` (an NS standing for `self`) the methods `names` of class node `cdef`: each becomes a modelled
    callable that interprets the repository's own method body on `me` (exactly); a raise inside propagates as Raised."""
    meths = {f.name: f for f in cdef.body if isinstance(f, ast.FunctionDef)}
    for nm in names:
        fdef = meths[nm]
        params = [a.arg for a in fdef.args.posonlyargs + fdef.args.args][1:]

        def m(*a, _f=fdef, _p=params, **kw):
            args = {"self": me}
            args.update(dict(zip(_p, a)))
            args.update(kw)
            r = call(_f, args, consts=consts, funcs=funcs)
            if r[0] == "raise":
                raise Raised(_f.name)
            return r[1]
        me[nm] = Native(m)
    return me
