"""lxs.q -- derived queries over the FX IR: paths/support, comb inlining, guard formulas,
effective priority, FSM graphs."""
import ast
from .core import AnalysisError, norm
from . import boolx as B


# ------------------------------------------------------------------------------------------
# paths and support
# ------------------------------------------------------------------------------------------

def _is_path(n):
    if isinstance(n, ast.Name):
        return True
    if isinstance(n, ast.Attribute):
        return _is_path(n.value)
    if isinstance(n, ast.Subscript):
        return _is_path(n.value)
    if isinstance(n, ast.Call) and isinstance(n.func, ast.Name) and n.func.id == "getattr" and n.args:
        return _is_path(n.args[0])
    return False


def paths(e, with_index_paths=True):
    """Maximal signal paths mentioned in expression `e` (texts)."""
    out = []

    def rec(n):
        if n is None:
            return
        if isinstance(n, ast.Constant):
            return
        if _is_path(n):
            out.append(norm(n))
            # index expressions are also read
            if with_index_paths:
                m = n
                while isinstance(m, (ast.Attribute, ast.Subscript, ast.Call)):
                    if isinstance(m, ast.Subscript):
                        sl = m.slice
                        for x in ([sl.lower, sl.upper, sl.step] if isinstance(sl, ast.Slice) else [sl]):
                            rec(x)
                        m = m.value
                    elif isinstance(m, ast.Call):
                        for x in m.args[1:]:
                            rec(x)
                        m = m.args[0]
                    else:
                        m = m.value
            return
        if isinstance(n, ast.Call):
            if isinstance(n.func, ast.Name) and n.func.id in ("len", "layout_len", "bits_for", "log2_int"):
                return          # width arithmetic reads no signal value
            if isinstance(n.func, ast.Attribute):
                rec(n.func.value)
            for a in n.args:
                rec(a.value if isinstance(a, ast.Starred) else a)
            for k in n.keywords:
                rec(k.value)
            return
        if isinstance(n, (ast.ListComp, ast.GeneratorExp, ast.SetComp)):
            rec(n.elt)
            for g in n.generators:
                rec(g.iter)
            return
        for c in ast.iter_child_nodes(n):
            rec(c)
    rec(e if not isinstance(e, str) else ast.parse(e, mode="eval").body)
    seen = []
    for p in out:
        if p not in seen:
            seen.append(p)
    return seen


def strip_subscripts(p):
    """`a.b[3:4]` -> `a.b` (only trailing subscripts)."""
    n = ast.parse(p, mode="eval").body
    while isinstance(n, ast.Subscript):
        n = n.value
    return norm(n)


def mentions(e, path):
    """Does expression `e` mention `path` or a sub-part (`path[..]`, `path.x`) or a prefix of it?"""
    for p in paths(e):
        if p == path or p.startswith(path + "[") or p.startswith(path + "."):
            return True
    return False


def compatible(pg1, pg2):
    """Two pyguard lists are compatible unless one contains (c, True) and the other (c, False)."""
    d = {}
    for c, p in pg1:
        d[c] = p
    for c, p in pg2:
        if c in d and d[c] != p:
            return False
    return True


# ------------------------------------------------------------------------------------------
# formulas with comb inlining
# ------------------------------------------------------------------------------------------

def state_atom(state):
    return B.A(f"{state[0]}.state == {state[1]!r}")


class Inliner:
    def __init__(self, fx, context=None, max_depth=4, no_inline=()):
        self.fx = fx
        self.context = context      # an Assign/Trans whose pyguards restrict the drivers considered
        self.max_depth = max_depth
        self.no_inline = set(no_inline)
        self._cache = {}

    def _ctx_pg(self):
        return self.context.pyguards if self.context is not None else []

    def drivers(self, path):
        out = []
        for a in self.fx.assigns:
            if a.domain != "comb" or a.kind not in ("eq",) or a.t != path:
                continue
            if not compatible(a.pyguards, self._ctx_pg()):
                continue
            out.append(a)
        # parent comb first, FSM state statements after (Migen: submodule fragments come later)
        out.sort(key=lambda a: (1 if a.state else 0, a.order))
        return out

    def formula_of_path(self, path, depth=0, stack=()):
        """Formula of a 1-bit comb signal from its drivers (statement-order fold); None if not
        comb-driven here or not inlinable."""
        if path in self.no_inline or path in stack or depth > self.max_depth:
            return None
        key = path
        if key in self._cache:
            return self._cache[key]
        ds = self.drivers(path)
        if not ds or any(a.loops for a in ds):
            self._cache[key] = None
            return None
        # reset value
        f = B.F
        d = self.fx.decl.get(path)
        if d is not None:
            call = d[1]
            if call is None:
                self._cache[key] = None
                return None
            for k in call.keywords:
                if k.arg == "reset":
                    try:
                        f = B.T if int(ast.literal_eval(k.value)) else B.F
                    except Exception:
                        self._cache[key] = None
                        return None
        ctxpg = self._ctx_pg()
        for a in ds:
            g = self.gformula(a, depth + 1, stack + (path,), inline=True)
            extra = [pg for pg in a.pyguards if pg not in ctxpg]
            for c, p in extra:
                at = B.A("py:" + c)
                g = B.And(g, at if p else B.Not(at))
            v = self.inline(B.from_expr(a.value), depth + 1, stack + (path,))
            f = B.Ite(g, v, f)
        self._cache[key] = f
        return f

    def inline(self, f, depth=0, stack=()):
        if depth > self.max_depth:
            return f
        mapping = {}
        for at in B.atoms(f):
            if at.startswith("py:") or " == " in at or " < " in at or " is " in at or " in " in at:
                continue
            try:
                node = ast.parse(at, mode="eval").body
            except SyntaxError:
                continue
            if not _is_path(node):
                continue
            r = self.formula_of_path(at, depth, stack)
            if r is not None:
                mapping[at] = r
        return B.subst(f, mapping) if mapping else f

    def _later(self, a):
        """Later assignments to the same target in the same scope (they override `a`: last wins)."""
        if not hasattr(a, "target") or a.kind not in ("eq", "nextvalue"):
            return []
        out = []
        seen = False
        for b in self.fx.assigns:
            if b is a:
                seen = True
                continue
            if not seen or b.kind not in ("eq", "nextvalue"):
                continue
            if b.domain != a.domain or b.state != a.state or b.t != a.t or b.loops != a.loops:
                continue
            if not all(pg in a.pyguards for pg in b.pyguards):
                continue
            out.append(b)
        return out

    def gformula(self, a, depth=0, stack=(), inline=True, effective=True):
        f = B.guard_formula(a.guards)
        if effective and depth == 0:
            for b in self._later(a):
                f = B.And(f, B.Not(B.guard_formula(b.guards)))
        if inline:
            f = self.inline(f, depth, stack)
        st = getattr(a, "state", None)
        if st is None and hasattr(a, "src"):
            st = (a.fsm, a.src)
        if st is not None:
            f = B.And(state_atom(st), f)
        return f

    def expr(self, e, inline=True):
        f = B.from_expr(e)
        return self.inline(f) if inline else f


def gformula(fx, a, inline=True, no_inline=()):
    return Inliner(fx, a, no_inline=no_inline).gformula(a, inline=inline)


def path_formula(fx, path, context=None, no_inline=()):
    """Inlined formula of path (or the atom itself when it is not comb-defined here)."""
    inl = Inliner(fx, context, no_inline=no_inline)
    r = inl.formula_of_path(path)
    return r if r is not None else B.A(path)


def comb_closure(fx, expr_or_path, context=None, stop=(), max_depth=8):
    """Transitive support of an expression through the comb drivers of this class."""
    pg = context.pyguards if context is not None else []
    seen = set()
    todo = list(paths(expr_or_path))
    depth = {p: 0 for p in todo}
    while todo:
        p = todo.pop()
        if p in seen:
            continue
        seen.add(p)
        if p in stop or depth.get(p, 0) >= max_depth:
            continue
        for a in fx.assigns:
            if a.domain != "comb" or a.kind != "eq":
                continue
            if a.t != p and strip_subscripts(a.t) != p:
                continue
            if not compatible(a.pyguards, pg):
                continue
            new = paths(a.value)
            for c, _ in a.guards:
                new.extend(paths(c))
            for n in new:
                if n not in seen:
                    depth[n] = depth.get(p, 0) + 1
                    todo.append(n)
    return seen


# ------------------------------------------------------------------------------------------
# effective priority (last assignment wins; earlier If arm wins)
# ------------------------------------------------------------------------------------------

def dead_drivers(fx, domain_pred=None):
    """Assignments made dead by a *later unconditional* assignment to the same target in the same
    domain/state scope with compatible pyguards.  Returns [(dead, killer)]."""
    out = []
    groups = {}
    for idx, a in enumerate(fx.assigns):
        if a.kind not in ("eq", "nextvalue"):
            continue
        if domain_pred and not domain_pred(a):
            continue
        key = (a.domain, a.state, a.t, tuple(a.loops))
        groups.setdefault(key, []).append((idx, a))
    for key, lst in groups.items():
        for i, (ia, a) in enumerate(lst):
            for ib, b in lst[i + 1:]:
                if b.guards:
                    continue
                if not compatible(a.pyguards, b.pyguards):
                    continue
                # b must hold whenever a holds at python level: b's pyguards subset of a's
                if not all(pg in a.pyguards for pg in b.pyguards):
                    continue
                out.append((a, b))
                break
    return out


# ------------------------------------------------------------------------------------------
# FSM graphs
# ------------------------------------------------------------------------------------------

def fsm_configs(fx, info):
    """All valuations of the pyguard atoms that occur in the FSM's states/transitions."""
    base = set(info.pyguards)
    conds = []
    for s, occ in info.states.items():
        for pg, _ in occ:
            for c, p in pg:
                if (c, p) not in base and c not in conds and (c, not p) not in base:
                    conds.append(c)
    for t in fx.trans:
        if t.fsm == info.id:
            for c, p in t.pyguards:
                if (c, p) not in base and c not in conds and (c, not p) not in base:
                    conds.append(c)
    if len(conds) > 5:
        raise AnalysisError(f"FSM {info.id}: {len(conds)} python-level conditions exceed the bound 5")
    import itertools
    for bits in itertools.product((True, False), repeat=len(conds)):
        yield dict(zip(conds, bits))


def _pg_holds(pg, cfg, base):
    for c, p in pg:
        if (c, p) in base:
            continue
        if c in cfg and cfg[c] != p:
            return False
    return True


def fsm_graph(fx, info, cfg):
    base = set(info.pyguards)
    states = set()
    for s, occ in info.states.items():
        if any(_pg_holds(pg, cfg, base) for pg, _ in occ):
            states.add(s)
    edges = {}
    for t in fx.trans:
        if t.fsm != info.id or t.src not in states:
            continue
        if not _pg_holds(t.pyguards, cfg, base):
            continue
        edges.setdefault(t.src, set()).add(t.dst)
    return states, edges


def fsm_check(fx, info):
    """Returns list of (problem, detail) over all python-level configurations."""
    problems = []
    nconf = 0
    for cfg in fsm_configs(fx, info):
        nconf += 1
        states, edges = fsm_graph(fx, info, cfg)
        if not states:
            continue
        reset = info.reset_state if info.reset_state is not None else info.first_state
        ctxt = ", ".join(f"{'' if v else 'not '}{k}" for k, v in cfg.items()) or "-"
        if reset not in states:
            # a reset state given by expression: accept if it names some state via IfExp text
            if isinstance(reset, str) and any(repr(s) in reset or s in reset for s in states):
                cands = [s for s in states if s in reset]
                reset = cands[0]
            else:
                problems.append(("reset-undefined", f"reset state {reset!r} not defined [{ctxt}]"))
                continue
        for s, ds in edges.items():
            for d in ds:
                if d not in states:
                    problems.append(("target-undefined", f"{s} -> {d!r} is not a defined state [{ctxt}]"))
        # reachability from reset
        reach = {reset}
        todo = [reset]
        while todo:
            s = todo.pop()
            for d in edges.get(s, ()):
                if d in states and d not in reach:
                    reach.add(d)
                    todo.append(d)
        # (states unreachable in a configuration are dead code, not a trap: not reported)
        # no trap: reset reachable from every reachable state
        for s in sorted(reach):
            seen = {s}
            todo = [s]
            ok = (s == reset)
            while todo and not ok:
                x = todo.pop()
                for d in edges.get(x, ()):
                    if d == reset:
                        ok = True
                        break
                    if d in states and d not in seen:
                        seen.add(d)
                        todo.append(d)
            if not ok and len(states) > 1:
                problems.append(("trap", f"reset state {reset} not reachable from {s} [{ctxt}]"))
    return problems, nconf


def _expand_locals(fx, f):
    """Atoms that are Python locals FX kept symbolic (a named sub-condition) are replaced by the formula of their definition."""
    mp = {}
    for at in B.atoms(f):
        d = getattr(fx, "localdefs", {}).get(at)
        if d is not None:
            try:
                mp[at] = B.from_expr(fx.expand(d))
            except Exception:
                pass
    return B.subst(f, mp) if mp else f


def EQ(a, want):
    """Effective guard of assignment/transition `a` is equivalent to `want`; tolerant of 1-bit comb-defined intermediates on either
    side (both formulas are inlined with the same definitions before the second attempt)."""
    f = a.eff()
    if B.equivalent(f, want):
        return True
    fx = getattr(a, "fx", None)
    if fx is None:
        return False
    inl = Inliner(fx, a)
    fi, wi = _expand_locals(fx, inl.inline(f)), _expand_locals(fx, inl.inline(want))
    return (fi != f or wi != want) and B.equivalent(fi, wi)


def IMP(a, want):
    f = a.eff()
    if B.entails(f, want):
        return True
    fx = getattr(a, "fx", None)
    if fx is None:
        return False
    inl = Inliner(fx, a)
    fi, wi = _expand_locals(fx, inl.inline(f)), _expand_locals(fx, inl.inline(want))
    return (fi != f or wi != want) and B.entails(fi, wi)


def elem_call(fx, text):
    """`xs[idx]` where `xs = [Cls(args..) for v in X]` (or `for j, v in enumerate(X)`) was kept by name: the constructor call of
    element idx, with the comprehension variable replaced by `X[idx]`.  None if `text` is not of that form."""
    import copy
    try:
        e = ast.parse(text, mode="eval").body
    except SyntaxError:
        return None
    if not (isinstance(e, ast.Subscript) and isinstance(e.value, ast.Name)):
        return None
    lc = fx.localdefs.get(e.value.id)
    if not (isinstance(lc, ast.ListComp) and isinstance(lc.elt, ast.Call) and len(lc.generators) == 1 and not lc.generators[0].ifs):
        return None
    g = lc.generators[0]
    idx = e.slice
    bind = {}
    if isinstance(g.target, ast.Name):
        bind[g.target.id] = ast.Subscript(value=copy.deepcopy(g.iter), slice=copy.deepcopy(idx), ctx=ast.Load())
    elif isinstance(g.target, ast.Tuple) and len(g.target.elts) == 2 and all(isinstance(t, ast.Name) for t in g.target.elts) and \
            isinstance(g.iter, ast.Call) and isinstance(g.iter.func, ast.Name) and g.iter.func.id == "enumerate" and g.iter.args:
        bind[g.target.elts[0].id] = copy.deepcopy(idx)
        bind[g.target.elts[1].id] = ast.Subscript(value=copy.deepcopy(g.iter.args[0]), slice=copy.deepcopy(idx), ctx=ast.Load())
    else:
        return None

    class S(ast.NodeTransformer):
        def visit_Name(self, n):
            return copy.deepcopy(bind[n.id]) if n.id in bind else n
    return S().visit(copy.deepcopy(lc.elt))


def star_elements(v):
    """`Cat(*xs)` / `Reduce(op, xs)` argument lists built by a comprehension or by a loop appending to a list: [(element ast,
    text that names the iterated element, iterable text)].  None when `v` has neither form."""
    import copy
    import re as _re
    if isinstance(v, ast.Starred):
        v = v.value
    if isinstance(v, (ast.ListComp, ast.GeneratorExp)) and len(v.generators) == 1 and not v.generators[0].ifs:
        g = v.generators[0]
        return [(v.elt, norm(g.target), norm(g.iter))]
    if isinstance(v, (ast.List, ast.Tuple)):
        out = []
        for x in v.elts:
            if isinstance(x, ast.Call) and isinstance(x.func, ast.Name) and x.func.id == "_each" and len(x.args) == 2 and \
                    isinstance(x.args[1], ast.Constant):
                m = _re.match(r"^(\w+) in (.+)$", str(x.args[1].value))
                if m:
                    # over range(..) the loop variable is the index itself
                    out.append((x.args[0], m.group(1) if m.group(2).startswith("range(") else f"{m.group(2)}[_{m.group(1)}]", m.group(2)))
                    continue
                m = _re.match(r"^(\(.+?\)) in (.+)$", str(x.args[1].value))
                if not m or ";" in str(x.args[1].value):
                    return None
                out.append((x.args[0], m.group(1), m.group(2)))
            else:
                return None
        return out or None
    return None


def value_formula(fx, assigns, default=None):
    """Boolean next-value of a 1-bit signal from its assignments (in program order; Migen: the last assignment whose guard holds
    wins): ite(G_n, V_n, ite(G_n-1, V_n-1, ... default)).  `default` = None means "holds" (an atom named after the target)."""
    from . import boolx as B
    assigns = sorted(assigns, key=lambda a: fx.assigns.index(a))
    if not assigns:
        return None
    f = default if default is not None else B.A(assigns[0].t + "'hold")
    for a in assigns:
        v = B.T if a.v == "1" else (B.F if a.v == "0" else B.from_expr(a.value))
        g = B.guard_formula(a.guards)
        f = B.Or(B.And(g, v), B.And(B.Not(g), f))
    return f


def eval_over(formula, var, values, extra=None):
    """{value: truth} of a boolean formula whose atoms are comparisons of `var` with integer literals (or names in extra), for each
    integer in `values` -- an exhaustive decision table over a small unsigned range."""
    from . import boolx as B
    out = {}
    for v in values:
        val = {}
        for at in B.atoms(formula):
            try:
                e = ast.parse(at, mode="eval").body
            except SyntaxError:
                return None
            env = {var: v}
            env.update(extra or {})

            def ev(x):
                if isinstance(x, ast.Constant) and isinstance(x.value, int):
                    return x.value
                if isinstance(x, ast.Name) and x.id in env:
                    return env[x.id]
                if isinstance(x, ast.BinOp) and isinstance(x.op, (ast.Add, ast.Sub)):
                    return ev(x.left) + ev(x.right) if isinstance(x.op, ast.Add) else ev(x.left) - ev(x.right)
                raise ValueError(norm(x))
            if not (isinstance(e, ast.Compare) and len(e.ops) == 1):
                return None
            try:
                a_, b_ = ev(e.left), ev(e.comparators[0])
            except ValueError:
                return None
            op = e.ops[0]
            r = {ast.Eq: a_ == b_, ast.NotEq: a_ != b_, ast.Lt: a_ < b_, ast.LtE: a_ <= b_, ast.Gt: a_ > b_, ast.GtE: a_ >= b_}.get(type(op))
            if r is None:
                return None
            val[at] = r
        try:
            out[v] = bool(B.ev(formula, val))
        except KeyError:
            return None
    return out


def elementwise(arg):
    """A list argument built per element of one iterable, in either spelling -- `[f(m) for m in xs]` / `(f(m) for m in xs)` or a
    list filled by `for m in xs: l.append(f(m))` (FX renders it `[_each(f(xs[_m]), 'm in xs')]`): (text of f with the element
    written `@`, text of xs).  None when `arg` is not of that form (several generators, conditions, mixed lists)."""
    import copy
    import re as _re
    if isinstance(arg, ast.Starred):
        arg = arg.value
    if isinstance(arg, (ast.ListComp, ast.GeneratorExp)) and len(arg.generators) == 1 and not arg.generators[0].ifs:
        proj = {}

        def bind(t, e):
            if isinstance(t, ast.Name):
                proj[t.id] = e
                return True
            if isinstance(t, (ast.Tuple, ast.List)) and not any(isinstance(x, ast.Starred) for x in t.elts):
                return all(bind(x, ast.Subscript(value=copy.deepcopy(e), slice=ast.Constant(value=k), ctx=ast.Load()))
                           for k, x in enumerate(t.elts))
            return False
        if not bind(arg.generators[0].target, ast.Name(id="ELEM", ctx=ast.Load())):
            return None

        class S(ast.NodeTransformer):
            def visit_Name(self, n):
                return copy.deepcopy(proj[n.id]) if n.id in proj else n
        return norm(S().visit(copy.deepcopy(arg.elt))).replace("ELEM", "@"), norm(arg.generators[0].iter)
    if isinstance(arg, (ast.List, ast.Tuple)) and len(arg.elts) == 1:
        x = arg.elts[0]
        if isinstance(x, ast.Call) and isinstance(x.func, ast.Name) and x.func.id == "_each" and len(x.args) == 2 and isinstance(x.args[1], ast.Constant):
            m = _re.match(r"^(\w+) in (.+)$", str(x.args[1].value))
            if m and ";" not in str(x.args[1].value) and " if " not in str(x.args[1].value):
                elem = f"{m.group(2)}[_{m.group(1)}]"
                return norm(x.args[0]).replace(elem, "@"), m.group(2)
    return None


class NotConcrete(Exception):
    pass


def concrete_expr(e, env, consts=None):
    """Integer value of FHDL expression node `e` under a concrete valuation env {source text of a signal: int} (module constants
    in `consts`): literals, comparisons, & | ^ + - << >> * //, ~ and Mux on the valuation; raises NotConcrete on anything else."""
    consts = consts or {}
    t = norm(e)
    if t in env:
        return env[t]
    if isinstance(e, ast.Constant) and isinstance(e.value, (int, bool)):
        return int(e.value)
    if isinstance(e, ast.Name) and e.id in consts and isinstance(consts[e.id], int):
        return consts[e.id]
    if isinstance(e, ast.Compare) and len(e.ops) == 1:
        a, b = concrete_expr(e.left, env, consts), concrete_expr(e.comparators[0], env, consts)
        r = {ast.Eq: a == b, ast.NotEq: a != b, ast.Lt: a < b, ast.LtE: a <= b, ast.Gt: a > b, ast.GtE: a >= b}.get(type(e.ops[0]))
        if r is None:
            raise NotConcrete(t)
        return int(r)
    if isinstance(e, ast.BinOp):
        a, b = concrete_expr(e.left, env, consts), concrete_expr(e.right, env, consts)
        ops = {ast.BitAnd: lambda: a & b, ast.BitOr: lambda: a | b, ast.BitXor: lambda: a ^ b, ast.Add: lambda: a + b, ast.Sub: lambda: a - b,
               ast.LShift: lambda: a << b, ast.RShift: lambda: a >> b, ast.Mult: lambda: a * b, ast.FloorDiv: lambda: a // b}
        if type(e.op) not in ops:
            raise NotConcrete(t)
        return ops[type(e.op)]()
    if isinstance(e, ast.UnaryOp) and isinstance(e.op, ast.Invert):
        a = concrete_expr(e.operand, env, consts)
        if a not in (0, 1):
            raise NotConcrete(t)        # width unknown
        return 1 - a
    if isinstance(e, ast.Call) and norm(e.func) == "Mux" and len(e.args) == 3 and not e.keywords:
        return concrete_expr(e.args[1] if concrete_expr(e.args[0], env, consts) else e.args[2], env, consts)
    if isinstance(e, ast.Call) and norm(e.func) in ("int", "Constant") and e.args:
        return concrete_expr(e.args[0], env, consts)
    if isinstance(e, ast.Call) and norm(e.func) == "Reduce" and len(e.args) == 2 and isinstance(e.args[0], ast.Constant) and \
            e.args[0].value in ("OR", "AND", "XOR", "ADD") and not e.keywords:
        # Reduce(op, [x == c for c in <literal list>]) / Reduce(op, [a, b, c]): the fold of the elements
        lst = e.args[1]
        elems = None
        if isinstance(lst, (ast.List, ast.Tuple)):
            elems = [concrete_expr(x, env, consts) for x in lst.elts]
        elif isinstance(lst, (ast.ListComp, ast.GeneratorExp)) and len(lst.generators) == 1 and not lst.generators[0].ifs and \
                isinstance(lst.generators[0].target, ast.Name):
            it = lst.generators[0].iter
            vals = None
            if isinstance(it, (ast.List, ast.Tuple)) and all(isinstance(x, ast.Constant) for x in it.elts):
                vals = [x.value for x in it.elts]
            elif isinstance(it, ast.Name) and isinstance(consts.get(it.id), (list, tuple)):
                vals = list(consts[it.id])
            elif isinstance(it, ast.Call) and norm(it.func) == "range" and all(isinstance(x, ast.Constant) for x in it.args):
                vals = list(range(*[x.value for x in it.args]))
            if vals is not None:
                v_ = lst.generators[0].target.id
                elems = []
                for c in vals:
                    c2 = dict(consts)
                    c2[v_] = c
                    e2 = {k: w for k, w in env.items()}
                    elems.append(concrete_expr(lst.elt, e2, c2))
        if elems is None:
            raise NotConcrete(t)
        import functools
        op = {"OR": lambda a, b: a | b, "AND": lambda a, b: a & b, "XOR": lambda a, b: a ^ b, "ADD": lambda a, b: a + b}[e.args[0].value]
        return functools.reduce(op, elems) if elems else 0
    raise NotConcrete(t)


def concrete_value(fx, assigns, env, consts=None, default=0):
    """Value a combinational signal takes under valuation `env`: its assignments in program order, the last one whose guards hold
    wins (Migen), `default` (the reset value) when none does."""
    val = default
    for a in sorted(assigns, key=lambda a: fx.assigns.index(a)):
        if all(bool(concrete_expr(g, env, consts)) == pol for g, pol in a.guards):
            val = concrete_expr(a.value, env, consts)
    return val


def signal_values(decl_call, env):
    """Number of values an unsigned `Signal(...)` declaration can hold (2**nbits), its arguments evaluated by the checker's own
    interpreter under the Python-level valuation `env`; None when the declaration is not understood.  Migen: Signal(max=M) is
    bits_for(M - 1) wide (max defaults to 2), Signal(n) / Signal(bits_sign=n) is n wide."""
    from . import pyconst
    if not (isinstance(decl_call, ast.Call) and norm(decl_call.func) == "Signal"):
        return None
    it = pyconst.Interp(dict(env))
    kw = {k.arg: k.value for k in decl_call.keywords if k.arg}
    bits = decl_call.args[0] if decl_call.args else kw.get("bits_sign")
    if bits is not None:
        v = it.ev(bits)
        if isinstance(v, tuple) and v and isinstance(v[0], int):
            v = v[0]
        return 2 ** v if isinstance(v, int) and not isinstance(v, bool) and 0 < v <= 64 else None
    mx = it.ev(kw["max"]) if "max" in kw else 2
    mn = it.ev(kw["min"]) if "min" in kw else 0
    if not isinstance(mx, int) or not isinstance(mn, int) or mn != 0 or mx < 1:
        return None
    return 2 ** max(pyconst._bits_for(mx - 1), 1)


def holds_copy_of(fx, cdef, reg, src):
    """The declaration of `reg` (a signal that is assigned the plain value of `src`) is as wide as `src` whatever the parameters:
    `Signal.like(src)`, `Signal(len(src))` / `Signal(src.nbits)`, or literally one of the declarations `src` has in the class (when
    `src` has exactly one).  Returns (ok, text of the declaration)."""
    d = fx.decl.get(reg)
    if d is None:
        return False, "?"
    call = d[1]
    txt = norm(call)
    if not isinstance(call, ast.Call):
        return False, txt
    f = norm(call.func)
    if f == "Signal.like" and call.args and norm(call.args[0]) == src:
        return True, txt
    if f == "Signal" and call.args and norm(call.args[0]) in (f"len({src})", f"{src}.nbits"):
        return True, txt
    decls = {norm(st.value) for st in ast.walk(cdef) if isinstance(st, ast.Assign) and isinstance(st.value, ast.Call) and
             norm(st.value.func) in ("Signal", "Signal.like") and any(norm(t) == src for t in st.targets)}
    return (len(decls) == 1 and txt in decls), txt


def stage_depths(fx, out, inputs, mem_ports=(), max_depth=4, context=None):
    """{input: set of register depths} over all def-use paths from the module inputs `inputs` to `out`: combinational drivers keep
    the depth, a clocked driver (or the synchronous read of a memory port in `mem_ports`: dat_r <- adr) adds one.  Guards count
    as uses.  Paths are followed on base names (subscripts stripped)."""
    pg = context.pyguards if context is not None else []
    res = {}
    seen = set()
    todo = [(strip_subscripts(p), 0) for p in paths(out)] if not isinstance(out, str) else [(out, 0)]
    while todo:
        p, d = todo.pop()
        if (p, d) in seen or d > max_depth:
            continue
        seen.add((p, d))
        hit = [i for i in inputs if p == i or p.startswith(i + "[") or p.startswith(i + ".")]
        if hit:
            res.setdefault(hit[0], set()).add(d)
            continue
        for mp in mem_ports:
            if p == mp + ".dat_r":
                todo.append((mp + ".adr", d + 1))
        for a in fx.assigns:
            if a.kind != "eq" or (a.t != p and strip_subscripts(a.t) != p):
                continue
            if not compatible(a.pyguards, pg):
                continue
            step = 0 if a.domain == "comb" else 1
            new = paths(a.value)
            for c, _ in a.guards:
                new.extend(paths(c))
            for n in new:
                todo.append((strip_subscripts(n), d + step))
    return res


def pg_active(pyguards, env):
    """Is a construct whose Python-level guards are `pyguards` built under the Python-level valuation `env` (name -> value)?  Each
    guard text is evaluated by the checker's interpreter; a guard that mentions anything outside `env` is left open (counts as
    satisfiable).  False only when some evaluable guard has the wrong polarity."""
    from . import pyconst
    for c, p in pyguards:
        try:
            node = ast.parse(c, mode="eval").body
        except SyntaxError:
            continue
        names = {n.id for n in ast.walk(node) if isinstance(n, ast.Name)}
        if not names or not names <= set(env):
            continue
        try:
            v = pyconst.Interp(dict(env)).ev(node)
        except Exception:       # noqa: not evaluable -> open
            continue
        if isinstance(v, (bool, int)) and bool(v) != p:
            return False
    return True


def index_comprehension(comp, idx):
    """Element `idx` (source text) of a list comprehension with one unfiltered generator over `enumerate(L)`, `range(len(L))`/`range(n)`
    or `L` itself, as an expression node: `[f(s, i) for i, s in enumerate(L)][k]` is `f(L[k], k)`.  None when not of that shape."""
    import copy
    if not (isinstance(comp, ast.ListComp) and len(comp.generators) == 1 and not comp.generators[0].ifs):
        return None
    g = comp.generators[0]
    sub = {}
    it = g.iter
    if isinstance(it, ast.Call) and norm(it.func) == "enumerate" and len(it.args) == 1 and isinstance(g.target, ast.Tuple) and \
            len(g.target.elts) == 2 and all(isinstance(e, ast.Name) for e in g.target.elts):
        sub[g.target.elts[0].id] = ast.parse(idx, mode="eval").body
        sub[g.target.elts[1].id] = ast.parse(f"{norm(it.args[0])}[{idx}]", mode="eval").body
    elif isinstance(it, ast.Call) and norm(it.func) == "range" and len(it.args) == 1 and isinstance(g.target, ast.Name):
        sub[g.target.id] = ast.parse(idx, mode="eval").body
    elif isinstance(it, ast.Name) and isinstance(g.target, ast.Name):
        sub[g.target.id] = ast.parse(f"{it.id}[{idx}]", mode="eval").body
    else:
        return None

    class S(ast.NodeTransformer):
        def visit_Name(self, x):
            return copy.deepcopy(sub[x.id]) if x.id in sub and isinstance(x.ctx, ast.Load) else x
    return S().visit(copy.deepcopy(comp.elt))


def instantiate(a, env, max_inst=4096):
    """Concrete instances of an IR record whose loops are kept symbolic: the loop iterables are evaluated by the checker's
    interpreter under the Python-level valuation `env` (innermost last) and every combination of loop values is yielded as the
    valuation {**env, loop variables}.  Records without loops yield `env` once.  Raises NotConcrete when an iterable is not a
    compile-time constant under `env`."""
    from . import pyconst

    def rec(k, cur):
        if k == len(a.loops):
            yield dict(cur)
            return
        var, it = a.loops[k]
        try:
            vals = pyconst.Interp(dict(cur)).ev(ast.parse(it, mode="eval").body)
            vals = list(vals)
        except Exception as ex:     # noqa
            raise NotConcrete(f"loop `{var} in {it}`: {ex}")
        try:
            tgt = ast.parse(var, mode="eval").body
        except SyntaxError:
            raise NotConcrete(var)
        for v in vals:
            nxt = dict(cur)
            if isinstance(tgt, ast.Name):
                nxt[tgt.id] = v
            elif isinstance(tgt, ast.Tuple) and isinstance(v, (tuple, list)) and len(v) == len(tgt.elts) and all(isinstance(e, ast.Name) for e in tgt.elts):
                for e, x in zip(tgt.elts, v):
                    nxt[e.id] = x
            else:
                raise NotConcrete(var)
            yield from rec(k + 1, nxt)
    n = 0
    for inst in rec(0, env):
        n += 1
        if n > max_inst:
            raise NotConcrete("too many instances")
        yield inst
