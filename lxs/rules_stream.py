"""Stream handshake rules S1..S8 (DESIGN 5, C03/C04), parameterised so that packet.py and the
stream-shaped parts of the AXI code can reuse them."""
import ast
from .core import AnalysisError, norm
from .fx import FX
from . import boolx as B
from . import q

STREAM = "litex/soc/interconnect/stream.py"
PACKET = "litex/soc/interconnect/packet.py"

_fx_cache = {}      # kept for compatibility (self-test clears it); the real cache lives on the Ctx


def fx_of(ctx, rel, cls=None, func=None, **kw):
    cache = ctx.__dict__.setdefault("_fx", {})
    key = (rel, cls, func)
    if key not in cache:
        cache[key] = FX(ctx, rel, cls=cls, func=func, **kw)
    return cache[key]


def under(t, base):
    return t == base or t.startswith(base + ".") or t.startswith(base + "[") or \
        t.startswith("getattr(" + base + ",") or t.startswith(base + ".payload") or t.startswith("getattr(" + base + ".")


def field_of(t, base):
    if t == base:
        return "<record>"
    if t.startswith(base + "."):
        rest = t[len(base) + 1:]
        for sep in ".[(":
            rest = rest.split(sep)[0] if sep in rest else rest
        return rest
    return "<dyn>"


def short(s, n=90):
    return s if len(s) <= n else s[:n - 3] + "..."


def fail_closed(ctx, fx, cls, monitored=None):
    """Opaque constructs inside comb/sync/act of an instance-table class abort the run."""
    for text, node, where in fx.opaque:
        raise AnalysisError(f"{fx.rel}:{getattr(node, 'lineno', 0)} {cls}: construct not understood in {where}: {text}")


# ------------------------------------------------------------------------------------------

def s1_stability(ctx, rid, fx, cls, src="self.source", alt=None, alt_reason="", skip_targets=(), only_fields=None):
    """Every sync assignment to a `src.<field>` (not ready) and to a register that *is* src.valid has a
    guard that entails  ~V | R  (or the stated alternative `alt`)."""
    Vp, Rp = src + ".valid", src + ".ready"
    n = 0
    base_inl = q.Inliner(fx)
    V0 = base_inl.formula_of_path(Vp)
    vregs = set()
    if V0 is not None and V0[0] == "a":
        # a register that *is* source.valid (strobe_all, the last valid_n)
        if fx.find(domain="sync", target=V0[1]):
            vregs.add(V0[1])
    for a in fx.find(domain="sync"):
        is_src = under(a.t, src) and field_of(a.t, src) != "ready"
        if not (is_src or a.t in vregs):
            continue
        if a.t in skip_targets:
            continue
        if only_fields is not None and field_of(a.t, src) not in only_fields and a.t not in vregs:
            continue
        inl = q.Inliner(fx, a)
        G = inl.gformula(a)
        V = inl.formula_of_path(Vp)
        V = V if V is not None else B.A(Vp)
        need = B.Or(B.Not(V), B.A(Rp))
        ok = B.entails(G, need)
        how = "~V|R"
        if not ok and alt is not None:
            ok = B.entails(G, inl.inline(alt))
            how = "alt:" + alt_reason
        detail = ""
        if not ok:
            cex = B.counterexample(G, need)
            detail = f"registered `{a.t}` can change while valid and not ready: guard {short(B.show(G))} does not " \
                     f"entail ~({short(B.show(V))}) | {Rp}; e.g. {cex}"
        ctx.ob(rid, fx.rel, cls, f"{a.t} <= {short(a.v, 60)}", ok, detail, a.line)
        n += 1
    return n


def s1_held_comb(ctx, rid, fx, cls, src="self.source", sink="self.sink"):
    """Where source.valid is a register (the token is held until ready), a source data field that is driven combinationally must
    not be a function of the sink side: the sink may change (or go idle) while the held token waits, and the field would change
    under valid & ~ready / be delivered with the next token's value."""
    base_inl = q.Inliner(fx)
    V0 = base_inl.formula_of_path(src + ".valid")
    held = V0 is not None and V0[0] == "a" and bool(fx.find(domain="sync", target=V0[1]))
    n = 0
    if not held:
        return n
    for a in fx.find(domain="comb"):
        if a.kind not in ("eq", "connect") or not under(a.t, src) or field_of(a.t, src) in ("valid", "ready"):
            continue
        sup = q.comb_closure(fx, a.value, context=a)
        for c, _ in a.guards:
            sup |= q.comb_closure(fx, c, context=a)
        leak = sorted(p for p in sup if p == sink or (under(p, sink) and field_of(p, sink) != "ready"))
        n += 1
        ctx.ob(rid, fx.rel, cls, f"held token: comb {a.t} does not follow the sink", not leak,
               "" if not leak else f"`{a.t} <= {short(a.v, 50)}` is a combinational function of {leak[:3]} while `{src}.valid` is the register "
                                   f"`{V0[1]}`: the field changes while the token is held (valid & ~ready), or is delivered with the value of "
                                   f"a later sink token", a.line)
    return n


def s1_held_selectors(ctx, rid, fx, cls, src="self.source", assume=None):
    """Source data fields that are combinational functions of registers (a word assembled from a shift register, a stored
    previous beat, a flag that selects between them): every such register changes only in cycles where no token is waiting on the
    source, i.e. each of its synchronous assignments has a guard that excludes source.valid & ~source.ready (both inlined through
    the FSM, so the state the token is offered in is part of the formula).  `assume`: a stated restriction of the environment."""
    regs = {a.t.split("[")[0] for a in fx.find(domain="sync")}
    sup = set()
    for a in fx.find(domain="comb"):
        if a.kind not in ("eq", "connect") or not under(a.t, src) or field_of(a.t, src) in ("valid", "ready"):
            continue
        sup |= q.comb_closure(fx, a.value, context=a)
        for c, _ in a.guards:
            sup |= q.comb_closure(fx, c, context=a)
    sel = sorted(r for r in regs if any(p_ == r or p_.startswith(r + ".") or p_.startswith(r + "[") for p_ in sup))
    n = 0
    for a in fx.find(domain="sync"):
        if a.t.split("[")[0] not in sel:
            continue
        inl = q.Inliner(fx, a)
        G = inl.gformula(a)
        W = inl.inline(B.from_expr(f"{src}.valid & ~{src}.ready"))
        A = inl.inline(assume) if assume is not None else B.T
        ok = B.entails(G, B.Not(W), assume=A)
        n += 1
        ctx.ob(rid, fx.rel, cls, f"held token: {a.t} <= {short(a.v, 30)}{' @' + str(a.state[1]) if a.state else ''} not while a token waits", ok,
               "" if ok else f"`{a.t}` feeds the data offered on `{src}` and is written under {short(B.show(G), 140)}, which can hold while "
                             f"{src}.valid & ~{src}.ready (e.g. {B.counterexample(G, B.Not(W), assume=A)}): the offered beat changes before it is taken",
               a.line)
    return n


def _valid_consulted(fx, reg):
    """The copy `reg` of a whole endpoint record is only ever used together with its own valid: `reg` is connected as a record
    (connect copies valid) or `reg.valid` is read somewhere in the class."""
    for c in fx.conns:
        if norm(c["conn"].src) == reg:
            return True
    want = reg + ".valid"
    for a in fx.assigns:
        if a.kind in ("opaque",):
            continue
        if want in q.paths(a.value) or any(want in q.paths(c) for c, _ in a.guards):
            return True
    for t in fx.trans:
        if any(want in q.paths(c) for c, _ in t.guards):
            return True
    return False


def s2_sampling(ctx, rid, fx, cls, sink="self.sink", extra_ok=()):
    """A sink data field reaches a sync target only on an accepted/valid token."""
    Vs = sink + ".valid"
    n = 0
    sync = fx.find(domain="sync")
    for a in sync:
        clos = None
        direct = [p for p in q.paths(a.value) if under(p, sink) and field_of(p, sink) not in ("valid", "ready")]
        whole = [p for p in q.paths(a.value) if p == sink]
        if not direct and not whole:
            # through comb-defined intermediates of this class
            clos = q.comb_closure(fx, a.value, context=a, stop=())
            direct = [p for p in clos if under(p, sink) and field_of(p, sink) not in ("valid", "ready") and p != sink]
            if not direct:
                continue
            # the intermediate itself must not already be valid-qualified: handled by (ii) on the closure
        inl = q.Inliner(fx, a)
        G = inl.gformula(a)
        ok = B.entails(G, B.A(Vs))
        how = "guard=>valid"
        if not ok:
            fv = inl.inline(B.from_expr(a.value))
            if B.entails(fv, B.A(Vs)):
                ok, how = True, "value&valid"
        if not ok and whole and _valid_consulted(fx, a.t):
            ok, how = True, "whole-record(valid travels with data and is consulted)"
        if not ok:
            # (iii) companion valid sampled under the same guard
            gt = a.gtext()
            for b in sync:
                if b is not a and b.gtext() == gt and b.v == Vs and q.compatible(a.pyguards, b.pyguards):
                    ok, how = True, f"companion {b.t}"
                    break
        if not ok and (cls, a.t) in extra_ok:
            ok, how = True, "table"
        detail = "" if ok else f"`{a.t}` samples {direct or whole} under guard {short(B.show(G))} which does not " \
                                f"entail {Vs} (and no valid companion): a field of an invalid cycle is latched"
        ctx.ob(rid, fx.rel, cls, f"{a.t} <= {short(a.v, 60)}", ok, detail, a.line)
        n += 1
    return n


def s3_counter(ctx, rid, fx, cls, counter, handshake, what=""):
    """Every sync assignment to `counter` is under a guard that entails `handshake` (expr text)."""
    H = B.from_expr(handshake)
    asg = fx.find(domain="sync", target=counter)
    ctx.ob(rid, fx.rel, cls, f"{counter}:present", bool(asg), f"counter `{counter}` has no sync driver any more", 0)
    for a in asg:
        inl = q.Inliner(fx, a)
        G = inl.gformula(a)
        Hh = inl.inline(H)
        ok = B.entails(G, Hh)
        detail = "" if ok else f"`{counter}` moves under {short(B.show(G))}, which does not entail the handshake " \
                                f"{handshake} ({short(B.show(Hh))}); e.g. {B.counterexample(G, Hh)}"
        ctx.ob(rid, fx.rel, cls, f"{counter} <= {short(a.v, 50)}", ok, detail, a.line)
    return len(asg)


def _width_text(call):
    """the part of a Signal(...) declaration that fixes its width: first positional argument / bits_sign= / max= (min=), or the
    argument of Signal.like; None for declarations without one (1 bit)"""
    if not isinstance(call, ast.Call):
        return "?"
    f = norm(call.func)
    kw = {k.arg: norm(k.value) for k in call.keywords if k.arg}
    if f == "Signal.like":
        return "like:" + (norm(call.args[0]) if call.args else "?")
    if call.args:
        return "bits:" + norm(call.args[0])
    if "bits_sign" in kw:
        return "bits:" + kw["bits_sign"]
    if "max" in kw or "min" in kw:
        return f"range:{kw.get('min', '0')}..{kw.get('max', '2')}"
    return "bits:1"


def copy_widths(ctx, rid, fx, cls, cdef):
    """A register that is loaded with the plain value of another signal declared in the same class holds a copy of it: both are
    declared with the same width expression (or one `like` the other).  A narrower copy truncates silently in Migen."""
    n = 0
    for a in fx.find(domain="sync"):
        if a.kind not in ("eq", "nextvalue") or a.t == a.v or a.t not in fx.decl or a.v not in fx.decl:
            continue
        dt, dv = fx.decl[a.t], fx.decl[a.v]
        if not (dt[0].startswith("Signal") and dv[0].startswith("Signal")):
            continue
        wt, wv = _width_text(dt[1]), _width_text(dv[1])
        ok = wt == wv or wt == "like:" + a.v or wv == "like:" + a.t or wt in (f"bits:len({a.v})", f"bits:{a.v}.nbits") or \
            q.holds_copy_of(fx, cdef, a.t, a.v)[0]
        n += 1
        ctx.ob(rid, fx.rel, cls, f"{a.t} holds a copy of {a.v}: same width", ok,
               "" if ok else f"{a.t} = {norm(dt[1])} is loaded with {a.v} = {norm(dv[1])}: the copy is declared with another width and is "
                             f"truncated (or zero-extended) silently", a.line)
    return n


def s3_word_flags(ctx, rid, fx, cls):
    """first / last of the wide word being assembled by an up-converting element (next-value formula of the 1-bit registers,
    q.value_formula): restarted from the incoming beat when the previous word leaves in the same cycle, cleared when it leaves
    alone, accumulated while the word fills, held otherwise."""
    Hout, Hin_ = B.from_expr("self.source.valid & self.source.ready"), B.from_expr("self.sink.valid & self.sink.ready")
    n = 0
    for flag in ("first", "last"):
        cur, inc = B.A(f"self.source.{flag}"), B.A(f"self.sink.{flag}")
        asg = fx.find(domain="sync", target=f"self.source.{flag}")
        nv = q.value_formula(fx, asg, default=cur) if asg else None
        want = B.Or(B.And(Hout, Hin_, inc), B.And(B.Not(Hout), Hin_, B.Or(inc, cur)), B.And(B.Not(Hout), B.Not(Hin_), cur))
        ok = nv is not None and B.equivalent(nv, want)
        n += 1
        ctx.ob(rid, fx.rel, cls, f"source.{flag}: restarted / cleared / accumulated with the word", ok,
               "" if ok else f"next source.{flag} = {short(B.show(nv), 200) if nv is not None else '?'}; e.g. "
                             f"{(B.counterexample(nv, want) or B.counterexample(want, nv)) if nv is not None else ''}: the flag of the previous word leaks "
                             f"into the next one / is lost", asg[0].line if asg else 0)
    return n


def s_range(ctx, rid, fx, cls, reg):
    """Occupancy register `reg`, declared Signal(max=M), i.e. able to hold 0..M-1 only: every sync update reg <= reg + d happens
    under a guard that entails comparisons of `reg` against thresholds which keep reg + d inside [0, M-1] (linear forms over the
    constructor's positive parameters).  Overflow wraps the occupancy -- a buffer full of accepted tokens vanishes, valid drops."""
    from . import lin
    d = fx.decl.get(reg)
    M = None
    if d and d[0] == "Signal":
        for k in d[1].keywords:
            if k.arg == "max":
                M = lin.linform(k.value)
    ctx.ob(rid, fx.rel, cls, f"{reg}: declared with max=", M is not None, f"`{reg}` is not a Signal(max=..) any more", 0)
    if M is None:
        return 0
    n = 0
    for a in fx.find(domain="sync", target=reg):
        delta = lin.sub(lin.linform(a.value), {reg: 1})
        if reg not in lin.linform(a.value):
            # plain load: decided for integer literals only (anything else is a value computed elsewhere)
            if isinstance(a.value, ast.Constant) and isinstance(a.value.value, int):
                c = lin.const(int(a.value.value))
                ok = lin.sign(c) in (0, 1) and lin.sign(lin.sub(c, lin.sub(M, lin.const(1)))) in (0, -1)
                n += 1
                ctx.ob(rid, fx.rel, cls, f"{reg} <= {a.v}: inside 0..max-1", ok, "" if ok else f"literal {a.v} outside 0..{lin.show(M)}-1", a.line)
            continue
        if reg in delta:
            ctx.ob(rid, fx.rel, cls, f"{reg} <= {short(a.v, 50)}", False, f"not of the form {reg} + d", a.line)
            continue
        inl = q.Inliner(fx, a)
        G = inl.gformula(a)
        ups, los = [], []
        for at in sorted(B.atoms(G)):
            try:
                e = ast.parse(at, mode="eval").body
            except SyntaxError:
                continue
            if not (isinstance(e, ast.Compare) and len(e.ops) == 1):
                continue
            op0 = type(e.ops[0])
            if norm(e.left) == reg:
                T = lin.linform(e.comparators[0])
            elif norm(e.comparators[0]) == reg:
                T = lin.linform(e.left)
                op0 = {ast.Lt: ast.Gt, ast.LtE: ast.GtE, ast.Gt: ast.Lt, ast.GtE: ast.LtE}.get(op0, op0)
            else:
                continue
            if reg in T:
                continue
            for pol in (True, False):
                f = B.A(at) if pol else B.Not(B.A(at))
                if not B.entails(G, f):
                    continue
                op = op0
                # reg != T with T the top (bottom) of the range tightens the implicit bound by one
                if (op is ast.Eq and not pol) or (op is ast.NotEq and pol):
                    if lin.sign(lin.sub(T, lin.sub(M, lin.const(1)))) == 0:
                        ups.append(lin.sub(M, lin.const(2)))
                    if lin.sign(T) == 0:
                        los.append(lin.const(1))
                    continue
                if (op is ast.Eq and pol) or (op is ast.NotEq and not pol):
                    ups.append(T)
                    los.append(T)
                    continue
                if not pol:
                    op = {ast.Lt: ast.GtE, ast.LtE: ast.Gt, ast.Gt: ast.LtE, ast.GtE: ast.Lt}.get(op)
                if op is ast.Lt:
                    ups.append(lin.sub(T, lin.const(1)))
                elif op is ast.LtE:
                    ups.append(T)
                elif op is ast.GtE:
                    los.append(T)
                elif op is ast.Gt:
                    los.append(lin.add(T, lin.const(1)))
        # upper: U + d <= M - 1 ; lower: L + d >= 0   (with the implicit bounds reg <= M-1 and reg >= 0)
        ups.append(lin.sub(M, lin.const(1)))
        los.append({})
        hi = any(lin.sign(lin.sub(lin.add(U, delta), lin.sub(M, lin.const(1)))) in (-1, 0) for U in ups)
        lo = any(lin.sign(lin.add(L, delta)) in (1, 0) for L in los)
        n += 1
        ctx.ob(rid, fx.rel, cls, f"{reg} {'+' if lin.sign(delta) == 1 else ''}{lin.show(delta)}: stays <= max-1", hi,
               "" if hi else f"`{reg}` takes {short(a.v, 40)} under {short(B.show(G))}; entailed upper bounds on {reg}: "
                             f"{[lin.show(u) for u in ups]}; none gives {reg} + ({lin.show(delta)}) <= {lin.show(lin.sub(M, lin.const(1)))}: "
                             f"the register wraps and accepted tokens vanish", a.line)
        ctx.ob(rid, fx.rel, cls, f"{reg} {'+' if lin.sign(delta) == 1 else ''}{lin.show(delta)}: stays >= 0", lo,
               "" if lo else f"`{reg}` takes {short(a.v, 40)} under {short(B.show(G))}; entailed lower bounds on {reg}: "
                             f"{[lin.show(u) for u in los]}; none gives {reg} + ({lin.show(delta)}) >= 0: the register underflows", a.line)
    return n


def depends(ctx, rid, fx, cls, role, formula_path_or_expr, atoms_needed, context=None, is_path=True):
    """The inlined formula semantically depends on each listed atom."""
    inl = q.Inliner(fx, context)
    if is_path:
        f = inl.formula_of_path(formula_path_or_expr)
        if f is None:
            ctx.ob(rid, fx.rel, cls, role, False, f"`{formula_path_or_expr}` is no longer comb-driven in this class", 0)
            return
    else:
        f = inl.inline(B.from_expr(formula_path_or_expr))
    for at in atoms_needed:
        ok = B.depends_on(f, at)
        ctx.ob(rid, fx.rel, cls, f"{role}:{at}", ok,
               "" if ok else f"{formula_path_or_expr} = {short(B.show(f))} does not depend on {at}", 0)


def s4_hold(ctx, rid, fx, cls, fsm_info, outputs):
    """FSM form of hold-until-ready: for every state S, every outgoing valid `v` driven in S with formula
    F_v and every transition out of S with guard G:  G => ~F_v | ready_v.
    outputs: [(valid_path, ready_path)]"""
    n = 0
    for st in fsm_info.states:
        for vp, rp in outputs:
            drv = [a for a in fx.find(domain="comb", target=vp) if a.state == (fsm_info.id, st)]
            if not drv:
                continue
            for t in fx.trans:
                if t.fsm != fsm_info.id or t.src != st:
                    continue
                inl = q.Inliner(fx, t)
                G = inl.gformula(t)
                Fv = inl.formula_of_path(vp)
                if Fv is None:
                    Fv = B.A(vp)
                need = B.Or(B.Not(Fv), B.A(rp))
                ok = B.entails(G, need)
                detail = "" if ok else f"state {st} leaves to {t.dst} under {short(B.show(G))} while `{vp}` may be " \
                                        f"asserted without `{rp}`: valid withdrawn before ready; e.g. {B.counterexample(G, need)}"
                ctx.ob(rid, fx.rel, cls, f"{st}->{t.dst}:{vp}", ok, detail, t.line)
                n += 1
    return n


def s4_hold_flags(ctx, rid, fx, cls, fsm_info, outputs, upstream=None):
    """In-state form of hold-until-ready: where an outgoing valid `v` is a function of registers (done flags, skid flags), every
    update of such a register made in a state that drives `v` either keeps `v` asserted or happens under `ready_v`:
        state S & G_update & F_v  =>  ready_v | F_v[r := new value]."""
    n = 0
    for st in fsm_info.states:
        for vp, rp in outputs:
            drv = [a for a in fx.find(domain="comb", target=vp) if a.state == (fsm_info.id, st)]
            if not drv:
                continue
            inl = q.Inliner(fx, drv[0])
            Fv = inl.formula_of_path(vp)
            if Fv is None:
                continue
            regs = {}
            for a in fx.find(domain="sync"):
                if a.state == (fsm_info.id, st) and a.t in B.atoms(Fv) and a.v in ("0", "1"):
                    regs.setdefault(a.t, []).append(a)
            for r, asg in sorted(regs.items()):
                for a in asg:
                    G = q.Inliner(fx, a).gformula(a)
                    after = B.subst(Fv, {r: B.T if a.v == "1" else B.F})
                    need = B.Or(B.A(rp), after)
                    ok = B.entails(B.And(G, Fv), need)
                    n += 1
                    ctx.ob(rid, fx.rel, cls, f"{st}: {r} <= {a.v} keeps {vp} until {rp}", ok,
                           "" if ok else f"in state {st} `{r} <= {a.v}` under {short(B.show(G))} turns `{vp}` = {short(B.show(Fv), 50)} off in a "
                                         f"cycle without `{rp}`: the request is withdrawn before it was accepted (or a done flag is set by another "
                                         f"channel's handshake); e.g. {B.counterexample(B.And(G, Fv), need)}", a.line)
            # at most once, for requests generated from flags only (valid = f(done flags)): in the cycle of the handshake the
            # state is left or a register update turns the valid off.  Pass-through valids (a function of an upstream valid) are
            # consumed by the upstream ready and are not judged here.
            up = (upstream or {}).get(vp)
            if up is not None and up[0] in B.atoms(Fv):
                pass        # pass-through of an upstream beat: judged against the upstream ready below
            elif not regs or not all(x in regs or x.startswith("fsm@") for x in B.atoms(Fv)):
                continue
            off = B.F
            if up is not None and up[0] in B.atoms(Fv):
                fur = inl.formula_of_path(up[1])
                if fur is not None:
                    off = B.Or(off, fur)
            for r, asg in regs.items():
                for a in asg:
                    if not B.satisfiable(B.And(state_atom_of(fsm_info, st), B.subst(Fv, {r: B.T if a.v == "1" else B.F}))):
                        off = B.Or(off, q.Inliner(fx, a).gformula(a))
            for t in fx.trans:
                if t.fsm == fsm_info.id and t.src == st and t.dst != st:
                    off = B.Or(off, q.Inliner(fx, t).gformula(t))
            hs = B.And(state_atom_of(fsm_info, st), Fv, B.A(rp))
            ok = B.entails(hs, off)
            n += 1
            ctx.ob(rid, fx.rel, cls, f"{st}: {vp} & {rp} consumes the request", ok,
                   "" if ok else f"in state {st} a handshake on `{vp}`/`{rp}` neither leaves the state nor clears the valid "
                                 f"({short(B.show(Fv), 50)}): the same request is offered again; e.g. {B.counterexample(hs, off)}", drv[0].line)
    return n


def state_atom_of(info, st):
    return q.state_atom((info.id, st))


def fsm_sanity(ctx, rid, fx, cls):
    n = 0
    for fid, info in fx.fsms.items():
        problems, nconf = q.fsm_check(fx, info)
        ctx.analysed["paths"] += nconf
        ctx.ob(rid, fx.rel, cls, f"fsm:{info.name}", not problems, "; ".join(d for _, d in problems[:4]), info.node)
        n += 1
    return n


def compatible_pg(x, t):
    return q.compatible(x.pyguards, t.pyguards)


def fsm_txn_state(ctx, rid, fx, cls, persistent=None):
    """Per-transaction FSM state is not inherited by the next transaction.  A register that a non-reset state accumulates into
    (its new value or its guard mentions the register itself: counters, sticky error latches) or raises as a flag (constant 1)
    is (i) re-initialised unconditionally in the FSM's reset state or in another state that every path from the reset state to
    the accumulating state crosses, (ii) cleared unconditionally in every successor state of each state that accumulates, or
    (iii) initialised on every transition that leaves the reset state.  `persistent`: {register: reason} kept on purpose."""
    persistent = persistent or {}
    n = 0
    for fid, info in fx.fsms.items():
        rs = info.reset_state or info.first_state
        edges = {}
        for cfg in q.fsm_configs(fx, info):
            _, e = q.fsm_graph(fx, info, cfg)
            for a_, bs in e.items():
                edges.setdefault(a_, set()).update(bs)
        regs = {}
        for a in fx.find(domain="sync"):
            if a.state and a.state[0] == fid:
                regs.setdefault(a.t, []).append(a)
        for r, asg in sorted(regs.items()):
            if r in persistent:
                continue
            acc = [x for x in asg if x.state[1] != rs and (r in q.paths(x.value) or any(r in q.paths(c) for c, _ in x.guards) or x.v == "1")]
            if not acc:
                continue
            plain = lambda x: not x.guards and r not in q.paths(x.value)
            acc_states = sorted({x.state[1] for x in acc})

            def dominates(D, S):
                """every path rs -> S passes through D (D != S)"""
                if D == S:
                    return False
                if D == rs:
                    return True
                seen, todo = {rs}, [rs]
                while todo:
                    u = todo.pop()
                    for v in edges.get(u, ()):
                        if v != D and v not in seen:
                            seen.add(v)
                            todo.append(v)
                return S not in seen
            ok, how = False, ""
            # (i)/(iv) unconditional initialisation in a state that every path from the reset state to the accumulating state crosses
            doms = sorted({x.state[1] for x in asg if plain(x)})
            if all(any(dominates(D, S) for D in doms) for S in acc_states):
                ok = True
                ds = sorted({D for S in acc_states for D in doms if dominates(D, S)})
                how = f"re-initialised in {'/'.join(ds[:2])}"
            # (iii) initialised on every transition that leaves the reset state
            if not ok:
                def reaches_acc(T):
                    seen, todo = {T}, [T]
                    while todo:
                        u = todo.pop()
                        if u in acc_states:
                            return True
                        for v in edges.get(u, ()):
                            if v != rs and v not in seen:
                                seen.add(v)
                                todo.append(v)
                    return False
                outs = [t for t in fx.trans if t.fsm == fid and t.src == rs and t.dst != rs and reaches_acc(t.dst)]
                ini = [x for x in asg if x.state[1] == rs and r not in q.paths(x.value)]
                if outs and all(any(compatible_pg(x, t) and B.entails(B.guard_formula(t.guards), B.guard_formula(x.guards)) for x in ini) for t in outs):
                    ok, how = True, f"initialised on every transition out of {rs} that leads there"
            # (ii) cleared in every successor of the accumulating states
            if not ok:
                ok = True
                for S in acc_states:
                    succ = edges.get(S, set()) - {S}
                    if not succ or not all(any(x.state[1] == T and plain(x) for x in asg) for T in succ):
                        ok = False
                how = "cleared in every successor of the accumulating states"
            n += 1
            ctx.ob(rid, fx.rel, cls, f"{r}: {how if ok else 're-initialised between transactions'}", ok,
                   "" if ok else f"`{r}` is accumulated in {sorted({x.state[1] for x in acc})} ({short(acc[0].v, 30)} under {short(acc[0].gtext(), 60)}) "
                                 f"but is not set unconditionally in a state between the reset state {rs} and there, nor on every exit of {rs}, nor cleared in "
                                 f"every successor state: what one "
                                 f"transaction left there (an error response, a count, a done flag) is inherited by the next", acc[0].line)
    return n


def prio(ctx, rid, fx, cls):
    dd = q.dead_drivers(fx)
    seen = set()
    targets = set(a.t for a in fx.assigns if a.kind in ("eq", "nextvalue"))
    for a, b in dd:
        ctx.ob(rid, fx.rel, cls, f"dead:{a.t} <= {short(a.v, 40)}", False,
               f"assignment `{a.t} <= {short(a.v, 40)}` (L{a.line}) is dead: a later unconditional assignment "
               f"`{b.t} <= {short(b.v, 40)}` (L{b.line}) in the same scope always overrides it", a.line)
        seen.add(a.t)
    # one (passing) obligation per multi-driver target so that the evidence shows what was looked at
    multi = {}
    for a in fx.assigns:
        if a.kind in ("eq", "nextvalue"):
            multi.setdefault((a.domain, a.state, a.t), 0)
            multi[(a.domain, a.state, a.t)] += 1
    for (dom, st, t), k in multi.items():
        if k > 1 and t not in seen:
            ctx.ob(rid, fx.rel, cls, f"order:{t}@{st[1] if st else dom}", True)
    return len(multi)


def connect_groups(conn):
    """Expansion of a stream `.connect`: returns (forward_groups, omitted, keep) where forward groups are
    the destination-side groups driven (valid first last payload param) and 'ready' backwards."""
    groups = ["valid", "first", "last", "payload", "param", "ready"]
    omit = keep = None
    c = conn["conn"]
    if c.omit is not None:
        try:
            omit = set(_lit_set(c.omit))
        except ValueError:
            omit = None
            return groups, None, None, False
    if c.keep is not None:
        try:
            keep = set(_lit_set(c.keep))
        except ValueError:
            return groups, omit, None, False
    return groups, omit, keep, True


def _lit_set(node):
    if isinstance(node, (ast.Set, ast.List, ast.Tuple)):
        out = []
        for e in node.elts:
            if not isinstance(e, ast.Constant):
                raise ValueError
            out.append(e.value)
        return out
    if isinstance(node, ast.Call) and isinstance(node.func, ast.Name) and node.func.id == "set" and len(node.args) == 1:
        return _lit_set(node.args[0])
    raise ValueError


def s5_omit(ctx, rid, fx, cls, allow=()):
    """Every group omitted from a stream connect is driven explicitly in the same class."""
    n = 0
    for c in fx.conns:
        conn = c["conn"]
        if conn.omit is None:
            continue
        src, dst = norm(conn.src), norm(conn.dst)
        try:
            omit = _lit_set(conn.omit)
        except ValueError:
            ctx.note(f"{fx.rel}:{c['node'].lineno} {cls}: non-literal omit set {norm(conn.omit)} not analysed")
            continue
        for name in sorted(omit):
            if (cls, name) in allow or (cls, dst, name) in allow or (cls, src, name) in allow:
                ctx.ob(rid, fx.rel, cls, f"omit:{src}->{dst}:{name}", True)
                n += 1
                continue
            if name == "ready":
                tgt = src + ".ready"
            else:
                tgt = dst + "." + name
            drv = [a for a in fx.assigns if a.kind in ("eq", "nextvalue") and (a.t == tgt or a.t.startswith(tgt + "["))
                   and q.compatible(a.pyguards, c["pyguards"])]
            # a second connect into the same destination that does not omit it also drives it
            if not drv:
                for c2 in fx.conns:
                    if c2 is c:
                        continue
                    k2 = c2["conn"]
                    try:
                        om2 = set(_lit_set(k2.omit)) if k2.omit is not None else set()
                    except ValueError:
                        om2 = set()
                    if k2.keep is not None:
                        continue
                    if name != "ready" and norm(k2.dst) == dst and name not in om2:
                        drv = [c2]
                    if name == "ready" and norm(k2.src) == src and "ready" not in om2:
                        drv = [c2]
            ok = bool(drv)
            ctx.ob(rid, fx.rel, cls, f"omit:{src}->{dst}:{name}", ok,
                   "" if ok else f"`{name}` is omitted from {src}.connect({dst}) and `{tgt}` is driven nowhere else in "
                                 f"{cls}: the field is dropped", c["node"])
            n += 1
    return n


def s5_hand(ctx, rid, fx, cls, table):
    """Hand-wired endpoints: each listed destination path must have a driver whose value mentions the
    listed source path.  table: [(dst_path_or_prefix, src_path_prefix, pyguard_hint)]"""
    for dst, srcp in table:
        drv = [a for a in fx.assigns if a.kind in ("eq", "nextvalue") and (a.t == dst or a.t.startswith(dst + "[") or
                                                                          a.t.startswith(dst + ".") or
                                                                          a.t.startswith("getattr(" + dst + ","))]
        ok = False
        for a in drv:
            clos = q.comb_closure(fx, a.value, context=a)
            if any(p == srcp or p.startswith(srcp + ".") or p.startswith(srcp + "[") or
                   p.startswith("getattr(" + srcp + ",") for p in clos):
                ok = True
                break
        ctx.ob(rid, fx.rel, cls, f"wire:{dst}<-{srcp}", ok,
               "" if ok else f"no driver of `{dst}` in {cls} reads `{srcp}`: the group is not forwarded", drv[0].line if drv else 0)


def s6_fork(ctx, rid, fx, cls, sink, subs):
    """sink.ready = AND of sub-sink readys; each sub valid entails the other sub-sinks' ready.
    subs: [sub_sink_path]"""
    inl = q.Inliner(fx)
    fr = inl.formula_of_path(sink + ".ready")
    if fr is None:
        ctx.ob(rid, fx.rel, cls, f"fork:{sink}.ready", False, f"`{sink}.ready` is no longer comb-driven here", 0)
        return
    for s in subs:
        ok = B.entails(fr, B.A(s + ".ready"))
        ctx.ob(rid, fx.rel, cls, f"fork:{sink}.ready=>{s}.ready", ok,
               "" if ok else f"{sink}.ready = {B.show(fr)} does not imply {s}.ready: a token is accepted that {s} refuses", 0)
    for s in subs:
        fv = inl.formula_of_path(s + ".valid")
        if fv is None:
            ctx.ob(rid, fx.rel, cls, f"fork:{s}.valid", False, f"`{s}.valid` is not explicitly driven", 0)
            continue
        ok = B.entails(fv, B.A(sink + ".valid"))
        ctx.ob(rid, fx.rel, cls, f"fork:{s}.valid=>{sink}.valid", ok,
               "" if ok else f"{s}.valid = {B.show(fv)} does not imply {sink}.valid", 0)
        for o in subs:
            if o == s:
                continue
            ok = B.entails(fv, B.A(o + ".ready"))
            line = 0
            for a in fx.find(domain="comb", target=s + ".valid"):
                line = a.line
            ctx.ob(rid, fx.rel, cls, f"fork:{s}.valid=>{o}.ready", ok,
                   "" if ok else f"{s}.valid = {B.show(fv)} does not entail {o}.ready: {s} is pushed in cycles in which the "
                                 f"sink token is not accepted (duplicate push while {o} stalls)", line)


def packetfifo_geometry(ctx, rid):
    """PacketFIFO: the payload store has the promised depth and the payload layout; the parameter store holds one entry more than
    requested (dequeue current while enqueuing next) and defaults to the payload depth.  A payload store that is shallower than a
    packet can never take the beat that carries `last`, while the parameter store -- which drives source.valid -- is still empty:
    both sides wait for ever."""
    from . import lin
    import copy as _copy
    m = ctx.mod(PACKET)
    init = m.method("PacketFIFO", "__init__")
    # straight-line symbolic reading of __init__, once for `param_depth is None` and once for a given param_depth
    envs = {"none": {}, "given": {}}

    def sub(e, env):
        class S(ast.NodeTransformer):
            def visit_Name(self, x):
                if isinstance(x.ctx, ast.Load) and x.id in env:
                    return _copy.deepcopy(env[x.id])
                return x
        return S().visit(_copy.deepcopy(e))
    stores = {}
    for st in init.body:
        if isinstance(st, ast.If):
            t = st.test
            isnone = isinstance(t, ast.Compare) and len(t.ops) == 1 and isinstance(t.ops[0], ast.Is) and isinstance(t.left, ast.Name) and \
                isinstance(t.comparators[0], ast.Constant) and t.comparators[0].value is None
            for b in st.body:
                if isinstance(b, ast.Assign) and len(b.targets) == 1 and isinstance(b.targets[0], ast.Name):
                    if isnone and b.targets[0].id == t.left.id and not st.orelse:
                        envs["none"][t.left.id] = sub(b.value, envs["none"])
                    else:
                        for env in envs.values():
                            env.pop(b.targets[0].id, None)
            continue
        if isinstance(st, ast.Assign):
            for env in envs.values():
                v = sub(st.value, env)
                for t in st.targets:
                    if isinstance(t, ast.Name):
                        env[t.id] = v
                    elif isinstance(t, ast.Attribute) and norm(t) in ("self.payload_fifo", "self.param_fifo"):
                        stores.setdefault(norm(t), {})[id(env)] = v
    key = {k: id(v) for k, v in envs.items()}

    def arg(store, br, idx):
        c = stores.get(store, {}).get(key[br])
        if isinstance(c, ast.Call) and norm(c.func).endswith("SyncFIFO") and len(c.args) > idx:
            return c.args[idx]
        return None

    def L(text):
        return lin.linform(ast.parse(text, mode="eval").body)
    one = lin.const(1)
    for store, layout, want in (("self.payload_fifo", "payload_layout", {"none": L("payload_depth"), "given": L("payload_depth")}),
                                ("self.param_fifo", "param_layout", {"none": lin.add(L("payload_depth"), one),
                                                                     "given": lin.add(L("param_depth"), one)})):
        what = "payload" if store == "self.payload_fifo" else "parameter"
        depth = {br: arg(store, br, 1) for br in envs}
        # depths compared by value (the default may be spelled as an `if` statement or as a conditional expression)
        from . import pyconst as _pc

        def _depth_ok(br, d):
            if d is None:
                return False
            for pd in (8, 5):
                for prm in ((None,) if br == "none" else (3, 16)):
                    exp = pd if what == "payload" else ((pd if prm is None else prm) + 1)
                    try:
                        got = _pc.Interp({"payload_depth": pd, "param_depth": prm}).ev(d)
                    except Exception:       # noqa
                        return False
                    if got != exp:
                        return False
            return True
        ok = all(_depth_ok(br, d) for br, d in depth.items())
        role = ("payload store = SyncFIFO(payload description, payload_depth, buffered)" if what == "payload" else
                "parameter store = SyncFIFO(param description, param_depth, buffered)")
        b = arg(store, "given", 2)
        ok = ok and b is not None and norm(b) == "buffered"
        ctx.ob(rid, PACKET, "PacketFIFO", role, ok,
               "" if ok else f"depth {[(br, norm(d) if d is not None else None) for br, d in depth.items()]}, buffered <- {norm(b) if b is not None else None}"
               + (": a packet longer than the store dead-locks the FIFO (last beat refused, nothing to release)" if what == "payload" else
                  ": the parameter store holds one entry more than requested (dequeue current while enqueuing next) and defaults to the payload depth"),
               init)
        if what == "parameter":
            ctx.ob(rid, PACKET, "PacketFIFO", "param_depth defaults to payload_depth, then + 1", ok, "" if ok else "see the parameter store", init)
        d0 = arg(store, "given", 0)
        ok = isinstance(d0, ast.Call) and norm(d0.func).endswith("EndpointDescription") and not d0.args and len(d0.keywords) == 1 and \
            d0.keywords[0].arg == layout and layout in norm(d0.keywords[0].value) and \
            ("param_layout" if layout == "payload_layout" else "payload_layout") not in norm(d0.keywords[0].value)
        ctx.ob(rid, PACKET, "PacketFIFO", f"each store carries its own layout ({what})", ok,
               "" if ok else f"{norm(d0) if d0 is not None else None}", init)


def shared_bus_idle_zero(ctx, rid, fx, cls, info, targets, tag="", discharged=()):
    """A master on an OR-combined bus (the CSR bus has no arbiter: `InterconnectShared` ORs every master's adr / we / re / dat_w)
    contributes zeros while it has no access in hand.  Per target line driven inside FSM `info` (or outside any FSM):
      (a) no driver with a non-constant value is active in the FSM's reset state whatever the inputs are (comb or clocked);
      (b) a clocked line is zero whenever the reset state is entered: abstract dataflow {zero, maybe non-zero} over the state graph.
    `discharged`: lines whose idle value the interconnect masks itself (term gated by the master's own strobe)."""
    rs = info.reset_state or info.first_state
    rs_atom = q.state_atom((info.id, rs))
    n = 0
    for t in targets:
        if t in discharged:
            ctx.ob(rid, fx.rel, cls, f"{tag}{t}: zero while idle (masked by the interconnect)", True, "")
            n += 1
            continue
        ds = [a for a in fx.find(target=t) if (a.state is None or a.state[0] == info.id) and q.compatible(a.pyguards, info.pyguards)]
        if not ds:
            continue
        # (a)
        bad = None
        for a in ds:
            if a.v == "0":
                continue
            G = q.Inliner(fx, a).gformula(a)
            if a.state is None and B.entails(B.T, G) or a.state is not None and B.entails(rs_atom, G):
                bad = a
                break
        ok = bad is None
        detail = ""
        line = ds[0].line
        if bad is not None:
            detail = (f"`{bad.t} <= {short(bad.v, 50)}` is driven in the idle state {rs} whatever the inputs are: the other masters' "
                      f"accesses are OR-ed with it on the shared bus")
            line = bad.line
        # (b)
        clocked = [a for a in ds if a.domain != "comb"]
        if ok and clocked:
            states = sorted({tr.src for tr in fx.trans if tr.fsm == info.id} | {tr.dst for tr in fx.trans if tr.fsm == info.id})
            val = {s: "Z" if s == rs else None for s in states}      # value at entry; None = not reached yet
            changed = True
            it = 0
            while changed and it < 50:
                changed = False
                it += 1
                for tr in fx.trans:
                    if tr.fsm != info.id or not q.compatible(tr.pyguards, info.pyguards) or val.get(tr.src) is None:
                        continue
                    Gt = B.guard_formula(tr.guards)
                    here = [a for a in clocked if a.state and a.state[1] == tr.src]
                    out = val[tr.src]
                    zero_always = any(a.v == "0" and B.entails(Gt, a.eff()) for a in here)
                    nonzero_may = any(a.v != "0" and not B.entails(Gt, B.Not(a.eff())) for a in here)
                    if nonzero_may:
                        out = "N"
                    elif zero_always:
                        out = "Z"
                    new = "N" if "N" in (out, val.get(tr.dst)) else "Z"
                    if val.get(tr.dst) != new:
                        val[tr.dst] = new
                        changed = True
            if val.get(rs) != "Z":
                ok = False
                detail = (f"{t} can still hold the value of the last access when {rs} is entered (no state on the way back clears it): "
                          f"an idle master keeps it on the OR-combined bus")
        ctx.ob(rid, fx.rel, cls, f"{tag}{t}: zero while idle", ok, detail, line)
        n += 1
    return n
