"""Crossbar access matrix (shared by C06 wishbone.Crossbar and C08 AXILiteCrossbar / AXICrossbar).

The M x N matrix of point-to-point interfaces must be indexed [master][slave]: the outer comprehension ranges over the masters,
the inner one over the slaves; every master is decoded into its *row* (zip(matrix, masters)) and every slave bus arbitrates its
*column* (zip(transpose(matrix), busses)).  With the loops swapped zip() truncates silently whenever M != N: some slaves become
unreachable / some masters are never connected, although the design elaborates."""
import ast
from .core import norm


def crossbar_shape(ctx, rid, rel, cls, decoder_cls, arbiter_cls):
    m = ctx.mod(rel)
    init = m.method(cls, "__init__")
    ctx.analysed["functions"].add(f"{rel}::{cls}.__init__")
    mats = [n for n in ast.walk(init) if isinstance(n, ast.Assign) and isinstance(n.value, ast.ListComp) and isinstance(n.value.elt, ast.ListComp)
            and isinstance(n.targets[0], ast.Name)]
    ctx.need(len(mats) == 1, f"{cls}: access matrix (list of lists) not found")
    mat = mats[0]
    name = mat.targets[0].id
    outer, inner = mat.value.generators, mat.value.elt.generators
    ok = len(outer) == 1 and len(inner) == 1 and norm(outer[0].iter) == "masters" and norm(inner[0].iter) == "slaves" and \
        not outer[0].ifs and not inner[0].ifs
    ctx.ob(rid, rel, cls, "access matrix is [master][slave] (outer loop masters, inner loop slaves)", ok,
           "" if ok else f"{name} = [[... for _ in {norm(inner[0].iter) if inner else '?'}] for _ in {norm(outer[0].iter) if outer else '?'}]: rows are zipped "
                         f"with the masters and columns with the slave busses below; with M != N masters/slaves zip() truncates and the last "
                         f"slaves are unreachable (or the last masters unconnected)", mat)
    # transposed view (either a named transposed copy or zip(*matrix) used directly)
    tnames = {name: "rows"}
    for n in ast.walk(init):
        if isinstance(n, ast.Assign) and isinstance(n.targets[0], ast.Name) and norm(n.value) in (f"list(zip(*{name}))", f"zip(*{name})"):
            tnames[n.targets[0].id] = "cols"
    dec = arb = None
    for lp in [n for n in ast.walk(init) if isinstance(n, ast.For)]:
        it = lp.iter
        if not (isinstance(it, ast.Call) and norm(it.func) == "zip" and len(it.args) == 2):
            continue
        a0 = norm(it.args[0])
        view = tnames.get(a0) or ("cols" if a0 == f"zip(*{name})" else None)
        calls = [norm(c.func) for c in ast.walk(lp) if isinstance(c, ast.Call)]
        if decoder_cls in calls:
            dec = (view, norm(it.args[1]))
        if arbiter_cls in calls:
            arb = (view, norm(it.args[1]))
    ok = dec == ("rows", "masters")
    ctx.ob(rid, rel, cls, f"one {decoder_cls} per master, on that master's row", ok, "" if ok else f"decoder loop zips {dec}", init)
    ok = arb == ("cols", "busses")
    ctx.ob(rid, rel, cls, f"one {arbiter_cls} per slave bus, on that slave's column", ok, "" if ok else f"arbiter loop zips {arb}", init)
    bz = [n for n in ast.walk(init) if isinstance(n, ast.Assign) and norm(n.value) == "zip(*slaves)"]
    ok = len(bz) == 1 and norm(bz[0].targets[0]) == "(matches, busses)"
    ctx.ob(rid, rel, cls, "slaves unzipped into (matches, busses) in this order", ok, "" if ok else f"{[norm(b) for b in bz]}", init)
