"""Crossbar access matrix (shared by C06 wishbone.Crossbar and C08 AXILiteCrossbar / AXICrossbar).

M masters and N slaves are joined by M x N point-to-point interfaces; master i is decoded onto the N interfaces [i][0..N-1], paired
with the slaves' address matchers in slave order, and slave j arbitrates the M interfaces [0..M-1][j].  With the two index roles
mixed up zip() truncates silently whenever M != N: some slaves become unreachable / some masters are never connected, although the
design elaborates.

Decided by abstract interpretation (lxs/pyconst.py) of the constructor with symbolic element lists of two different lengths
(2 masters x 3 slaves and 3 x 2): the interfaces are opaque tokens, the recorded Decoder / Arbiter constructor calls are compared
with the wiring above.  How the matrix is built (nested comprehension, nested loops, helper) does not matter."""
import ast
from . import pyconst
from .core import norm


def crossbar_shape(ctx, rid, rel, cls, decoder_cls, arbiter_cls):
    m = ctx.mod(rel)
    init = m.method(cls, "__init__")
    ctx.analysed["functions"].add(f"{rel}::{cls}.__init__")
    verdict = {}
    for M, N in ((2, 3), (3, 2)):
        masters = [pyconst.Tok("master", i) for i in range(M)]
        slaves = [(pyconst.Tok("match", j), pyconst.Tok("bus", j)) for j in range(N)]
        env = dict(pyconst.module_consts(m.tree))
        reg = pyconst.Tok("register", 0)
        env.update(masters=masters, slaves=slaves, register=reg)
        it = pyconst.Interp(env, objects=True)
        try:
            it.run(init.body)
        except Exception as e:          # interpreter limits
            ctx.need(False, f"{cls}.__init__ cannot be interpreted: {e}")
        decs = [o for o in it.created if o.cls == decoder_cls]
        arbs = [o for o in it.created if o.cls == arbiter_cls]
        ctx.need(decs or arbs, f"{cls}: no {decoder_cls} / {arbiter_cls} is constructed (anchor changed)")
        problems = []
        acc = {}        # (i, j) -> interface token
        # decoders: one per master, N (matcher, interface) pairs in slave order
        seen_m = []
        for d in decs:
            mi = d.args[0] if d.args else None
            rows = d.args[1] if len(d.args) > 1 else None
            if not isinstance(mi, pyconst.Tok) or mi.kind != "master" or not isinstance(rows, (list, tuple)):
                problems.append(f"{decoder_cls} at L{d.line} is not built on one master and a list of (matcher, interface) pairs")
                continue
            seen_m.append(mi.n)
            if "register" in [a.arg for a in init.args.args] and not (len(d.args) > 2 and d.args[2] == reg or d.kwargs.get("register") == reg):
                problems.append(f"{decoder_cls} of master {mi.n} is not built with the crossbar's `register` setting")
            if len(rows) != N:
                problems.append(f"{decoder_cls} of master {mi.n} sees {len(rows)} of the {N} slaves")
            for j, pr in enumerate(rows):
                if not (isinstance(pr, tuple) and len(pr) == 2 and isinstance(pr[0], pyconst.Tok) and pr[0] == pyconst.Tok("match", j)
                        and isinstance(pr[1], pyconst.Obj)):
                    problems.append(f"{decoder_cls} of master {mi.n}: entry {j} is {pr!r}, not (matcher of slave {j}, an access interface)")
                    continue
                acc[(mi.n, j)] = pr[1]
        if sorted(seen_m) != list(range(M)):
            problems.append(f"masters decoded: {sorted(seen_m)} of {list(range(M))}")
        seen_s = []
        for a in arbs:
            col = a.args[0] if a.args else None
            bus = a.args[1] if len(a.args) > 1 else None
            if not isinstance(bus, pyconst.Tok) or bus.kind != "bus" or not isinstance(col, (list, tuple)):
                problems.append(f"{arbiter_cls} at L{a.line} is not built on a list of interfaces and one slave bus")
                continue
            seen_s.append(bus.n)
            want = [acc.get((i, bus.n)) for i in range(M)]
            if len(col) != M or any(x is not w for x, w in zip(col, want)):
                problems.append(f"{arbiter_cls} of slave {bus.n} arbitrates {list(col)!r}, expected the interfaces {want!r} that the "
                                f"{M} masters' decoders use for slave {bus.n}")
        if sorted(seen_s) != list(range(N)):
            problems.append(f"slave busses arbitrated: {sorted(seen_s)} of {list(range(N))}")
        toks = [id(v) for v in acc.values()]
        if len(set(toks)) != len(toks):
            problems.append("one access interface serves two (master, slave) pairs")
        verdict[(M, N)] = problems
    for (M, N), problems in verdict.items():
        ok = not problems
        ctx.ob(rid, rel, cls, f"{M} masters x {N} slaves: one {decoder_cls} per master on its row, one {arbiter_cls} per slave bus on its column",
               ok, "" if ok else "; ".join(problems[:4]) + ": with M != N masters/slaves zip() truncates and the last slaves are unreachable "
                                                           "(or the last masters unconnected)", init)


def internal_bus_width(ctx, rid, rel, classes, iface_cls, width_kw, master_attr, extra_funcs=()):
    """Every internal interface an interconnect builds carries the full address of every master: constructors interpreted
    (lxs/pyconst.py) on masters of different address widths, in both orders; each recorded `iface_cls(...)` must be given the widest
    master's address width (a narrower shared bus cuts the upper address bits before the decoder sees them)."""
    wm = ctx.mod(rel)
    funcs = {f.name: f for f in wm.tree.body if isinstance(f, ast.FunctionDef)}
    for r2 in extra_funcs:
        funcs.update({f.name: f for f in ctx.mod(r2).tree.body if isinstance(f, ast.FunctionDef)})
    for cls in classes:
        fn = wm.method(cls, "__init__")
        ctx.analysed["functions"].add(f"{rel}::{cls}.__init__")
        bad, n_if = None, 0
        for widths in ([8, 12], [12, 8], [10, 10, 30], [30]):
            masters = [pyconst.NS(**{master_attr: w, "data_width": 32, "__cls__": (iface_cls,)}) for w in widths]
            slaves = [(pyconst.Tok("match", i), pyconst.NS(**{master_attr: 30, "data_width": 32})) for i in range(2)]
            it = pyconst.Interp({"self": pyconst.NS(), "masters": masters, "slaves": slaves, "register": False, "timeout_cycles": 100},
                                objects=True, funcs=funcs)
            try:
                it.run(fn.body)
            except Exception as ex:
                ctx.need(False, f"{cls}.__init__ cannot be interpreted ({ex})")
            ifs = [o for o in it.created if o.cls == iface_cls]
            n_if += len(ifs)
            for o in ifs:
                aw = o.kwargs.get(width_kw)
                if aw != max(widths) and bad is None:
                    bad = f"masters with address widths {widths}: an internal {iface_cls} is built with {width_kw}={aw}: the upper address bits of " \
                          f"the wider master never reach the decoder, its access to a high / unmapped address selects a slave of the low range"
        ctx.ob(rid, rel, cls, "internal bus address width = widest master", bad is None and n_if >= 4, bad or f"only {n_if} internal interfaces built", fn)
