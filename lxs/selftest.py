"""lxs.selftest -- the checker tested both ways.

Mutants (one instance broken; must be reported, naming the expected rule) and neutral twins
(behaviour-preserving edits; must stay silent) are applied *in memory* to the current source of the
repo (Ctx overlay) -- nothing is written to /repo, no scratch copy is needed.  A mutant whose anchor
text is absent from the current tree is skipped (reported as stale), never failed."""
import importlib
import json
import os
import sys
import time
from concurrent.futures import ProcessPoolExecutor

from .core import Ctx, AnalysisError, load_known, VERIF


def load(pid):
    try:
        m = importlib.import_module(f"lxs.mutants.{pid.lower()}")
    except ModuleNotFoundError:
        return []
    return list(m.MUTANTS)


def apply(mut, repo):
    path = os.path.join(repo, mut["file"])
    if not os.path.isfile(path):
        return None
    src = open(path, encoding="utf-8").read()
    edits = mut.get("edits") or [(mut["find"], mut["replace"])]
    for find, repl in edits:
        if src.count(find) < 1:
            return None
        if mut.get("all"):
            src = src.replace(find, repl)
        else:
            if src.count(find) != 1 and "nth" not in mut:
                return None
            nth = mut.get("nth", 0)
            idx = -1
            for _ in range(nth + 1):
                idx = src.find(find, idx + 1)
            if idx < 0:
                return None
            src = src[:idx] + repl + src[idx + len(find):]
    return src


def run_one(args):
    pid, mut, repo = args
    src = apply(mut, repo)
    if src is None:
        return (mut["id"], "stale", "anchor text not found (exactly once) in current tree")
    try:
        compile(src, mut["file"], "exec")
    except SyntaxError as e:
        return (mut["id"], "broken", f"mutant does not compile: {e}")
    mod = importlib.import_module(f"lxs.props.{pid.lower()}")
    ctx = Ctx(pid, repo=repo, tier="quick", overlay={mut["file"]: src})
    from . import rules_stream
    rules_stream._fx_cache.clear()
    try:
        mod.run(ctx)
        if mut.get("tier") == "thorough" and hasattr(mod, "run_thorough"):
            mod.run_thorough(ctx)
    except AnalysisError as e:
        return (mut["id"], "analysis-error", str(e)) if mut["expect"] != "analysis-error" else (mut["id"], "ok", str(e))
    except Exception as e:
        return (mut["id"], "crash", f"{type(e).__name__}: {e}")
    known, _ = load_known()
    viols = [f for f in ctx.findings if (pid, f.key) not in known]
    if mut["expect"] == "violation":
        want = mut.get("rule")
        hit = [f for f in viols if want is None or f.rule == want]
        if hit:
            return (mut["id"], "ok", f"reported by {hit[0].rule}: {hit[0].scope} [{hit[0].role}]")
        if viols:
            return (mut["id"], "wrong-rule", f"reported by {sorted({f.rule for f in viols})}, expected {want}")
        return (mut["id"], "missed", "mutant not reported")
    else:
        if viols:
            return (mut["id"], "false-alarm", f"neutral twin reported by {viols[0].rule}: {viols[0].role}: {viols[0].detail[:160]}")
        return (mut["id"], "ok", "silent")


def run(pids, quiet=False, repo="/repo"):
    t0 = time.time()
    jobs = []
    for pid in pids:
        for mut in load(pid):
            jobs.append((pid, mut, repo))
    results = []
    if len(jobs) > 4:
        with ProcessPoolExecutor(max_workers=min(16, os.cpu_count() or 4)) as ex:
            results = list(ex.map(run_one, jobs))
    else:
        results = [run_one(j) for j in jobs]
    bad = [r for r in results if r[1] not in ("ok", "stale")]
    stale = [r for r in results if r[1] == "stale"]
    if not quiet:
        for r in results:
            print(f"  {r[0]:28s} {r[1]:14s} {r[2][:200]}")
        print(f"selftest: {len(results)} variants, {len(results) - len(bad) - len(stale)} ok, {len(stale)} stale, "
              f"{len(bad)} bad, {time.time() - t0:.1f}s")
    global LAST
    LAST = dict(variants=len(results), ok=len(results) - len(bad) - len(stale), stale=len(stale),
                bad=[list(r) for r in bad], by_id={r[0]: r[1] for r in results})
    if bad:
        for r in bad:
            print(f"SELFTEST-FAIL {r[0]}: {r[1]}: {r[2][:300]}")
        return 2
    return 0


LAST = {}


def annotate_evidence(pid):
    p = os.path.join(VERIF, "evidence", f"{pid}.json")
    try:
        ev = json.load(open(p))
        ev["coverage"]["selftest"] = {k: v for k, v in LAST.items() if k != "by_id"}
        ev["coverage"]["selftest"]["results"] = LAST.get("by_id", {})
        json.dump(ev, open(p, "w"), indent=1)
    except Exception:
        pass
