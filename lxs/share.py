"""Reporting one construct under every property it is a necessary condition of.

`lift(ctx, "c16", [("P3", "Dispatcher", "default arm")], "S18", text)` runs the sibling property's rules in a child context (same
repository, tier, in-memory overlay, parsed modules and IR cache) and records, under rule `rid` of *this* property, every obligation
of the sibling whose (rule, scope, role) matches one of the selectors.  One implementation per construct; the sibling's other
obligations (and its known findings) are not imported."""
import importlib
import re

from .core import Ctx, AnalysisError

_SITE = re.compile(r"^(.*?):(\d+) (.*?) \[(.*)\]$", re.S)


def lift(ctx, modname, selectors, rid, text, min_sites=1):
    cache = ctx.__dict__.setdefault("_lifted", {})
    if modname not in cache:
        child = Ctx(ctx.prop, ctx.repo, ctx.tier, overlay=ctx.overlay)
        child._mods = ctx._mods
        child.__dict__["_fx"] = ctx.__dict__.setdefault("_fx", {})
        mod = importlib.import_module(f"lxs.props.{modname}")
        mod.run(child)
        cache[modname] = child
        for k in ("files", "classes", "functions"):
            ctx.analysed[k] |= child.analysed[k]
    child = cache[modname]
    ctx.rule(rid, text, min_sites=min_sites)
    n = 0
    for (r, site, ok, detail) in child.obligations:
        m = _SITE.match(site)
        if not m:
            continue
        file, line, scope, role = m.group(1), int(m.group(2)), m.group(3), m.group(4)
        if any(r == sr and scope.startswith(ss) and sub in role for sr, ss, sub in selectors):
            ctx.ob(rid, file, scope, role, ok, detail, line)
            n += 1
    if n == 0:
        raise AnalysisError(f"shared rule {rid}: no obligation of {modname} matches {selectors} (anchor changed)")
    return n
