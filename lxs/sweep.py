"""lxs.sweep -- thorough tier: the generic cross-cutting rules (PRIO no dead driver, FSM sanity) swept over
*every* class of the property's anchored files, beyond the frozen instance tables."""
import json
import os
from .core import VERIF, AnalysisError
from .fx import FX
from . import q

# classes whose FSM legitimately has no way back to its reset state without the ResetInserter (triaged by reading)
FSM_TRIAGE = {
    # (file, class): reason
}


def anchored_files(pid):
    out = []
    with open(os.path.join(VERIF, "properties.jsonl")) as f:
        for ln in f:
            p = json.loads(ln)
            if p["id"] == pid:
                out = [x for x in p["anchors"]["files"] if x.endswith(".py")]
    return out


def run(ctx):
    files = anchored_files(ctx.prop)
    ctx.rule("SW-PRIO", "sweep: no assignment made dead by a later unconditional assignment, in every class of the anchored files",
             min_sites=0)
    ctx.rule("SW-FSM", "sweep: every FSM of every class of the anchored files has defined targets and no trap state", min_sites=0)
    ncls = 0
    for rel in files:
        if not ctx.exists(rel):
            raise AnalysisError(f"anchor file vanished: {rel}")
        m = ctx.mod(rel)
        for cname in m.classes:
            try:
                fx = FX(ctx, rel, cls=cname)
            except AnalysisError:
                raise
            except Exception as e:      # the sweep goes beyond the instance tables: an extraction crash is a note
                ctx.note(f"sweep: {rel}::{cname} not extracted ({type(e).__name__}: {e})")
                continue
            ncls += 1
            dd = q.dead_drivers(fx)
            ctx.ob("SW-PRIO", rel, cname, "no dead driver", not dd,
                   "" if not dd else "; ".join(f"`{a.t} <= {a.v[:30]}` (L{a.line}) is overridden unconditionally at L{b.line}" for a, b in dd[:3]),
                   dd[0][0].line if dd else 0)
            for fid, info in fx.fsms.items():
                if (rel, cname) in FSM_TRIAGE:
                    ctx.note(f"sweep: FSM of {rel}::{cname} triaged: {FSM_TRIAGE[(rel, cname)]}")
                    continue
                try:
                    problems, nconf = q.fsm_check(fx, info)
                except AnalysisError as e:
                    ctx.note(f"sweep: FSM of {rel}::{cname} not checked ({e})")
                    continue
                ctx.analysed["paths"] += nconf
                ctx.ob("SW-FSM", rel, cname, f"fsm:{info.alias or info.name}", not problems,
                       "; ".join(d for _, d in problems[:3]), info.node)
            for text, node, where in fx.opaque:
                ctx.note(f"sweep: {rel}:{getattr(node, 'lineno', 0)} {cname}: construct not understood in {where}: {text[:80]}")
    ctx.note(f"sweep: {ncls} classes of {len(files)} anchored files")
