#!/venv/bin/python
"""add_mutant.py <Cxx>  -- append the corpus entries read from stdin to lxs/mutants/cxx.py (before the closing bracket)."""
import os
import sys
here = os.path.dirname(os.path.dirname(os.path.abspath(__file__)))
p = os.path.join(here, "lxs", "mutants", sys.argv[1].lower() + ".py")
s = open(p).read().rstrip("\n")
assert s.endswith("]"), p
txt = sys.stdin.read().rstrip("\n")
open(p, "w").write(s[:-1] + txt + "\n]\n")
