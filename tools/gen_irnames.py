#!/venv/bin/python
"""Regenerate lxs/irnames.json: for every class / function the rules extract (lxs.fx.FX), the IR-level fingerprints of its declared
local objects on the tree the rules were written for (see FX._resolve_ir_renames).  Run after any commit to /repo."""
import importlib
import json
import os
import sys
sys.path.insert(0, os.path.dirname(os.path.dirname(os.path.abspath(__file__))))
from lxs import fx
from lxs.core import Ctx

REPO = sys.argv[1] if len(sys.argv) > 1 else "/repo"
fx.RECORD_IR = {}
for i in range(1, 21):
    pid = f"C{i:02d}"
    mod = importlib.import_module(f"lxs.props.{pid.lower()}")
    for tier in ("quick", "thorough"):
        ctx = Ctx(pid, repo=REPO, tier=tier)
        try:
            mod.run(ctx)
            if tier == "thorough" and hasattr(mod, "run_thorough"):
                mod.run_thorough(ctx)
        except Exception as e:
            print(pid, tier, "error:", e)
out = os.path.join(os.path.dirname(os.path.dirname(os.path.abspath(__file__))), "lxs", "irnames.json")
with open(out, "w") as f:
    json.dump(fx.RECORD_IR, f, indent=0, sort_keys=True)
print(f"{len(fx.RECORD_IR)} extracted scopes, {sum(len(v) for v in fx.RECORD_IR.values())} local objects -> {out} ({os.path.getsize(out)//1024} KB)")
