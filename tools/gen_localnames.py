#!/venv/bin/python
"""Regenerate lxs/localnames.json (fingerprints of local names, see lxs/names.py) from /repo for every file the rules read:
the anchor files of properties.jsonl plus every litex file named in lxs/props."""
import ast
import glob
import json
import os
import re
import sys
sys.path.insert(0, os.path.dirname(os.path.dirname(os.path.abspath(__file__))))
from lxs import names

VERIF = os.path.dirname(os.path.dirname(os.path.abspath(__file__)))
REPO = sys.argv[1] if len(sys.argv) > 1 else "/repo"
files = set()
for l in open(os.path.join(VERIF, "properties.jsonl")):
    for f in json.loads(l)["anchors"]["files"]:
        files.add(f)
for p in glob.glob(os.path.join(VERIF, "lxs", "**", "*.py"), recursive=True):
    for m in re.findall(r'"(litex/[\w/]+\.py)"', open(p).read()):
        files.add(m)
for d in ("litex/soc/cores/clock", "litex/soc/interconnect/axi"):
    for p in glob.glob(os.path.join(REPO, d, "*.py")):
        files.add(os.path.relpath(p, REPO))
out = {}
eqs = {}
tops = {}
defs = {}
n = 0
for rel in sorted(files):
    path = os.path.join(REPO, rel)
    if not os.path.isfile(path):
        continue
    tree = names.canon_consts(names.canon_compare(ast.parse(open(path).read())))
    eqs[rel] = sorted(names.eq_pairs(tree))
    tops[rel] = sorted({x.name for x in tree.body if isinstance(x, (ast.FunctionDef, ast.ClassDef))} |
                       {t.id for x in tree.body if isinstance(x, ast.Assign) for t in x.targets if isinstance(t, ast.Name)})
    defs[rel] = {sname: names.nested_defs(node) for sname, node in names.scopes(tree)}
    ent = {}
    for sname, node in names.scopes(tree):
        fp = names.fingerprints(node)
        fp = {k: dict(v) for k, v in fp.items() if v}
        if fp:
            ent[sname] = fp
            n += len(fp)
    if ent:
        out[rel] = ent
with open(names.TABLE, "w") as f:
    json.dump(out, f, indent=0, sort_keys=True)
with open(names.EQTABLE, "w") as f:
    json.dump({"eq": {k: v for k, v in eqs.items() if v}, "top": tops, "defs": defs}, f, indent=0, sort_keys=True)
print(f"{len(out)} files, {sum(len(v) for v in out.values())} scopes, {n} local names -> {names.TABLE} ({os.path.getsize(names.TABLE)//1024} KB)")
