#!/venv/bin/python
"""Generate /verif/MANIFEST.json from the per-property modules (single source of truth)."""
import importlib, json, os, sys
sys.path.insert(0, os.path.dirname(os.path.dirname(os.path.abspath(__file__))))
VERIF = os.path.dirname(os.path.dirname(os.path.abspath(__file__)))
PROPS = [f"C{i:02d}" for i in range(1, 21)]
checks, na = [], []
for pid in PROPS:
    try:
        m = importlib.import_module(f"lxs.props.{pid.lower()}")
    except ModuleNotFoundError:
        na.append({"property_id": pid, "reason": "checker not built yet (static-analysis design in DESIGN.md section 5)"})
        continue
    if getattr(m, "NOT_APPLICABLE", None):
        na.append({"property_id": pid, "reason": m.NOT_APPLICABLE})
        continue
    checks.append({
        "property_id": pid,
        "quick_cmd": f"./check {pid} --tier quick",
        "thorough_cmd": f"./check {pid} --tier thorough",
        "evidence_file": f"/verif/evidence/{pid}.json",
        "replay_cmd_template": "./check replay {path}",
        "engine": "lxs",
        "level_claimed": {
            "category": "other",
            "text": getattr(m, "LEVEL", m.__doc__.strip()),
            "design_ref": f"DESIGN.md section 5, {pid}",
        },
        "level_note": getattr(m, "NOTE", "Trusted: CPython ast; summaries of Migen primitives (DESIGN 3.2); the frozen "
                                        "instance tables in the checker. Decides structural necessary conditions only; "
                                        "the behaviour as a whole is not decided (DESIGN section 7)."),
        "technique": getattr(m, "TECHNIQUE", "custom AST-based static analysis"),
    })
man = {
    "version": 1,
    "setup_cmd": "/venv/bin/python -m compileall -q lxs >/dev/null 2>&1 || python3 -m compileall -q lxs",
    "hooks": {
        "guard": "LITEX_VERIF",
        "enable": "no hooks: the checks only parse /repo's source (ast); nothing in /repo is instrumented",
        "baseline_off_cmd": "cd /repo && /venv/bin/python -m pytest -ra -q -p no:cacheprovider --timeout=900 --continue-on-collection-errors",
        "source_commits": [],
        "add_only": True,
    },
    "engines": [{
        "name": "lxs",
        "path": "/verif/lxs",
        "serves_properties": [c["property_id"] for c in checks],
        "kind_free_text": "repository-specific static analyser: FHDL guarded-assignment IR recovered from Python ASTs (FX), "
                          "propositional guard entailment (BOOL), FSM graphs, clock-domain typing (DOM), path/def-use "
                          "analysis of plain-Python code (PATH), decision tables (DT), literal tables (LIT), twin comparison (TWIN)",
    }],
    "checks": checks,
    "notes": "Static analysis only: every check parses /repo's current working tree on each run; nothing from /repo is "
             "imported or executed. exit 0 held / exit 1 VIOLATION / exit 2 ANALYSIS-ERROR (vanished anchor, opaque construct, "
             "vacuous rule). Known findings: /verif/known_findings.jsonl. Self-test (mutants + neutral twins): ./check selftest.",
    "not_applicable": na,
}
json.dump(man, open(os.path.join(VERIF, "MANIFEST.json"), "w"), indent=1)
print(f"{len(checks)} checks, {len(na)} not applicable")
