#!/venv/bin/python
"""Write the sub-agent prompts for a batch of behaviour-preserving refactorings (false-alarm corpus; development aid).

  gen_neutral_prompts.py <tag> [<Cxx> ...]   ->  /tmp/promptsN<tag>/<Cxx>.txt, worktree /tmp/wtN<tag>_c<nn>

<tag> picks the size: "M" = an ordinary tidy-up commit (6-10 edits in 2 classes / functions), "S" = substantial (>= 8 edits of >= 4 kinds
in >= 3 classes).  The sub-agent gets the property text and file list only, nothing of /verif.
"""
import json
import os
import sys

BASE = '''You are helping to evaluate a verification effort for the open-source project enjoy-digital/litex (a Python/Migen framework that generates FPGA SoCs). You work ONLY inside your own scratch git worktree of the project at {wt} (a detached checkout). Do not read or write anything under /repo or /verif, and do not look for other people's work on this machine.

CONTEXT: the following property of the code is being verified by an automatic source-level checker that must not raise an alarm when the code is refactored without changing its behaviour.

Title: {title}
Statement: {statement}
Files the property is about: {files}

YOUR TASK: make a BEHAVIOUR-PRESERVING refactoring of the LiteX source in {wt}, in the files listed above, of the kind a maintainer does while tidying up: rename local variables/signals, reorder independent statements, split or merge statement lists, extract a repeated expression into a named local or into a small helper function/closure, turn If/Elif chains into equivalent nested forms, replace a comprehension by a loop (or vice versa), flip comparisons, apply De Morgan, move a constant into a named constant, change `self.comb += [a, b]` into two statements, use a guard clause / early return, etc. {size} Pick the classes / functions {pick}. Every edit must leave the generated hardware / the computed results EXACTLY the same for all inputs and configurations. Do not change public names (class names, method names, parameters, attributes accessed as self.xxx from outside, CSR names). Do not change tests.

Then CONVINCE YOURSELF it is behaviour-preserving: (1) the existing test-suite passes exactly as before: `cd {wt} && PYTHONPATH={wt} /venv/bin/python -m pytest -q -p no:cacheprovider --timeout=900 -n 6 test/ -rA 2>&1 | grep PASSED | sort` gives the same list before and after (record it before you start; about 112 tests pass, about 66 fail for environment reasons); (2) write a small differential check `NEUTRAL_check.py` that, for each class / function you touched, builds the module with the ORIGINAL code (a copy of the original file imported under another module name, e.g. via `git show HEAD:<path>`; do NOT use `git stash`: the stash is shared between all worktrees of the repository and other participants use it too -- to go back and forth use `git diff > my.diff`, `git apply -R my.diff`, `git apply my.diff`) and with the refactored code for a few parameterisations, and compares either the generated Verilog text modulo signal names (litex.gen.fhdl.verilog.convert) or cycle-by-cycle simulation outputs under random stimulus (migen run_simulation); for plain-Python functions compare return values over many inputs. If you find a difference, fix your refactoring (do not leave a behaviour change in).

Practical notes: Python is /venv/bin/python (3.12); ALWAYS run with PYTHONPATH={wt}. Migen's automatic signal naming is broken on Python 3.12 in some spots: give explicit names to Signals you create in test benches. No network. Remove sim.vcd and build outputs. Keep the whole job under about 25 minutes.

DELIVERABLES (inside {wt}): `NEUTRAL_patch.diff` (git diff of the LiteX sources only), `NEUTRAL_check.py`, `NEUTRAL_meta.json` = {{"property": "{pid}", "files": [...], "edits": ["<one line per edit: kind + where>"], "tests_before": n, "tests_after": n, "check_passes": true}}. Leave the worktree WITH the refactoring applied. In your final message list the edits.'''

SIZES = {
    "M": ("Make it the size of an ORDINARY TIDY-UP COMMIT: 6 to 10 edits of at least 3 different kinds, in two classes / functions.",
          "yourself among those the property is about -- not necessarily the most central ones"),
    "S": ("Make it SUBSTANTIAL: touch at least 3 different classes/functions and apply at least 8 distinct edits of at least 4 different kinds.",
          "that are most central to the property"),
}


def main():
    tag = sys.argv[1]
    size, pick = SIZES[tag[0]]
    here = os.path.dirname(os.path.dirname(os.path.abspath(__file__)))
    props = {}
    with open(os.path.join(here, "properties.jsonl")) as f:
        for line in f:
            p = json.loads(line)
            props[p["id"]] = p
    pids = sys.argv[2:] or sorted(props)
    out = f"/tmp/promptsN{tag}"
    os.makedirs(out, exist_ok=True)
    for pid in pids:
        d = props[pid]
        wt = f"/tmp/wtN{tag}_c{pid[1:]}"
        s = BASE.format(wt=wt, pid=pid, title=d["title"], statement=d["statement"], files=", ".join(d["anchors"]["files"]), size=size, pick=pick)
        with open(os.path.join(out, pid + ".txt"), "w") as f:
            f.write(s)
    print(f"{len(pids)} prompts in {out}")


if __name__ == "__main__":
    main()
