#!/venv/bin/python
"""Write the sub-agent prompts for one round of seeded changes (development aid; not part of any registered check).

  gen_prompts.py <round> [<Cxx> ...]   ->  /tmp/prompts<round>/<Cxx>.txt, worktree path /tmp/wt<round>_c<nn>

A sub-agent gets only the property text (title, statement, quantifier), its own scratch worktree, and one-sentence summaries of
the changes already taken for that property (so that it looks elsewhere).  Nothing from /verif's rules.
"""
import glob
import json
import os
import sys

T = """You are helping to evaluate a verification effort for the open-source project enjoy-digital/litex (a Python/Migen framework that generates FPGA SoCs). You work ONLY inside your own scratch git worktree of the project at {wt} (a detached checkout of the pinned commit). Do not read or write anything under /repo or /verif, and do not look for other people's work on this machine: what you produce must be independent.

THE PROPERTY (the only specification you get):

Title: {title}

Statement: {statement}

It is meant to hold for: {quant}
{taken}
YOUR TASK: make ONE small, realistic change to the LiteX source in {wt} (the kind of slip a maintainer could plausibly commit: a dropped guard, a wrong operand, an off-by-one, a swapped argument, two sites that each look fine alone, a reordering, a clean-up that subtly changes behaviour) such that
 (a) the property above is BROKEN by the change,
 (b) the code still imports/compiles and the project's existing test-suite still passes exactly as before, and
 (c) the breakage needs something SPECIFIC to manifest -- a particular interleaving or stall pattern, a fault at a particular point, a multi-step sequence of operations, an unusual input/parameter/configuration, or two cooperating sites -- NOT something ordinary use would expose at once.
Prefer changes in the core files the property is about; do not change tests; keep the diff small (a few lines).

Then write a DEMONSTRATION: a small stand-alone Python program (or a unittest file) that exercises the real LiteX code (Migen simulation via `from migen import *` / `run_simulation`, or a direct call for plain-Python parts) and that FAILS (non-zero exit / failing assertion) with your change and PASSES (exit 0) on the unchanged code.

Practical notes:
 - Python: /venv/bin/python (3.12). LiteX is installed in editable mode pointing at /repo, so ALWAYS run with PYTHONPATH={wt} so that `import litex` resolves to your worktree (check `python -c "import litex; print(litex.__file__)"`).
 - Existing tests: `cd {wt} && PYTHONPATH={wt} /venv/bin/python -m pytest -q -p no:cacheprovider --timeout=900 -n 6 test/ 2>&1 | tail -5`. On the unchanged tree 110 tests pass and about 42 fail or error for environment reasons (missing tools); record the list of passing tests before your change (e.g. with `-rA | grep PASSED` or `--junitxml`) and make sure exactly the same set passes after it.
 - Migen's automatic signal naming is broken on Python 3.12 in some spots: when you create Signals/ClockDomains in your demo give them explicit names (Signal(name="x"), ClockDomain("sys")) if you hit naming errors. `run_simulation(dut, gen(), clocks={{"sys": 10}})` works.
 - The machine has no network. Remove any sim.vcd or build output you create.
 - Keep the demonstration's run time under two minutes. There is no need to be exhaustive or to explain LiteX; one good change is the goal. If your first idea turns out to be caught by the existing tests, pick another.

DELIVERABLES (all inside {wt}):
 1. `SEED_patch.diff`  -- output of `git diff` for your change to the LiteX sources only (the demo must NOT be part of it).
 2. `SEED_demo.py`     -- the demonstration; `PYTHONPATH={wt} /venv/bin/python SEED_demo.py` exits non-zero with the change applied and 0 without it (verify both ways with `git apply -R SEED_patch.diff` and `git apply SEED_patch.diff`; do NOT use `git stash`: the stash is shared between all worktrees of the repository and other participants use it too).
 3. `SEED_meta.json`   -- {{"property": "{pid}", "summary": "<one sentence: what was changed>", "needs": "<what specific condition is needed for it to manifest>", "files": [...], "tests_before": <n passed>, "tests_after": <n passed>, "demo_fails_with_patch": true, "demo_passes_without_patch": true}}
Leave the worktree WITH the change applied. In your final message give the summary, the 'needs' sentence, and the exact commands you ran to confirm (b) and the demo both ways."""

TAKEN = """
ALREADY TAKEN: other participants already submitted the following changes for the same property -- yours must be DIFFERENT from all of them: a different construct, preferably a class, function or file among those the property is about that none of them touches, and a different kind of slip:
{items}
"""


def main():
    rnd = sys.argv[1]
    here = os.path.dirname(os.path.dirname(os.path.abspath(__file__)))
    props = {}
    with open(os.path.join(here, "properties.jsonl")) as f:
        for line in f:
            p = json.loads(line)
            props[p["id"]] = p
    pids = sys.argv[2:] or sorted(props)
    out = f"/tmp/prompts{rnd}"
    os.makedirs(out, exist_ok=True)
    for pid in pids:
        p = props[pid]
        taken = []
        for d in sorted(glob.glob(os.path.join(here, "seeded", pid + "*"))):
            try:
                with open(os.path.join(d, "meta.json")) as f:
                    s = json.load(f).get("summary")
            except Exception:
                s = None
            if s:
                taken.append(s)
        items = "\n".join(f' - "{t[:260]}"' for t in taken)
        wt = f"/tmp/wt{rnd}_c{pid[1:]}"
        txt = T.format(wt=wt, title=p["title"], statement=p["statement"], quant=p["quantifier"]["text"], pid=pid,
                       taken=TAKEN.format(items=items) if taken else "")
        with open(os.path.join(out, pid + ".txt"), "w") as f:
            f.write(txt)
    print(f"{len(pids)} prompts in {out}")


if __name__ == "__main__":
    main()
