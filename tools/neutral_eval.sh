#!/bin/sh
# usage: neutral_eval.sh [name ...]   apply each neutral/<name>.diff to /repo, run all quick checks, undo; print alarms
cd /verif
[ $# -eq 0 ] && set -- $(ls neutral/*.diff | sed 's,neutral/,,; s,\.diff,,')
for n in "$@"; do
  git -C /repo apply /verif/neutral/$n.diff || { echo "$n: patch does not apply"; continue; }
  ./check all > /tmp/neutral_$n.log 2>&1
  git -C /repo checkout -- .
  c=$(grep -c -E "^VIOLATION|ANALYSIS-ERROR" /tmp/neutral_$n.log)
  echo "=== $n: $c alarms"
  grep -E -B1 "^VIOLATION|ERROR" /tmp/neutral_$n.log | grep -v "^--" | grep -v "^VIOLATION" | cut -c1-${W:-330}
done
