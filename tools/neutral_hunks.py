#!/venv/bin/python
"""False-alarm probe at single-edit granularity: every hunk of every behaviour-preserving refactoring in /verif/neutral/*.diff is
applied on its own (in memory, as an overlay on /repo) and all quick checks that read the file are run.  A hunk that cannot
stand alone (it uses a name another hunk introduces, or removes a binding other hunks stop using) is skipped.  Every remaining run
must stay silent.   usage: neutral_hunks.py [N-Cxx ...]"""
import ast
import glob
import importlib
import os
import re
import sys
from concurrent.futures import ProcessPoolExecutor
sys.path.insert(0, os.path.dirname(os.path.dirname(os.path.abspath(__file__))))
from lxs.core import Ctx, AnalysisError, load_known

VERIF = os.path.dirname(os.path.dirname(os.path.abspath(__file__)))
REPO = "/repo"
PROPS = [f"C{i:02d}" for i in range(1, 21)]


def hunks(path):
    """[(rel, start line (1-based, old file), old lines, new lines)]"""
    out = []
    rel = None
    cur = None
    for line in open(path).read().split("\n"):
        if line.startswith("diff --git"):
            cur = None
            continue
        if line.startswith("+++ b/"):
            rel = line[6:].strip()
            continue
        if line.startswith("--- ") or line.startswith("index "):
            continue
        m = re.match(r"^@@ -(\d+)(?:,(\d+))? \+(\d+)(?:,(\d+))? @@", line)
        if m:
            cur = (rel, int(m.group(1)), [], [])
            out.append(cur)
            continue
        if cur is None:
            continue
        if line.startswith("\\"):
            continue
        if line.startswith("-"):
            cur[2].append(line[1:])
        elif line.startswith("+"):
            cur[3].append(line[1:])
        else:
            cur[2].append(line[1:])
            cur[3].append(line[1:])
    return out


def apply(src, h):
    rel, start, old, new = h
    lines = src.split("\n")
    # trailing context lines of a hunk at EOF may be absent
    while old and new and old[-1] == "" and new[-1] == "" and lines[start - 1:start - 1 + len(old)] != old:
        old, new = old[:-1], new[:-1]
    if lines[start - 1:start - 1 + len(old)] != old:
        return None
    return "\n".join(lines[:start - 1] + new + lines[start - 1 + len(old):])


def _bound(tree):
    mod = set()
    for n in ast.walk(tree):
        if isinstance(n, ast.Name) and isinstance(n.ctx, (ast.Store, ast.Del)):
            mod.add(n.id)
        elif isinstance(n, (ast.FunctionDef, ast.ClassDef)):
            mod.add(n.name)
        elif isinstance(n, ast.arg):
            mod.add(n.arg)
        elif isinstance(n, (ast.Import, ast.ImportFrom)):
            for a in n.names:
                mod.add((a.asname or a.name).split(".")[0])
        elif isinstance(n, ast.ExceptHandler) and n.name:
            mod.add(n.name)
    return mod


def _funcs(tree):
    out = {}
    for c in tree.body:
        if isinstance(c, ast.FunctionDef):
            out[c.name] = c
        elif isinstance(c, ast.ClassDef):
            for m in c.body:
                if isinstance(m, ast.FunctionDef):
                    out[c.name + "." + m.name] = m
    return out


def standalone(old_src, new_src):
    try:
        new = ast.parse(new_src)
    except SyntaxError:
        return False
    old = ast.parse(old_src)
    ob, nb = _bound(old), _bound(new)
    old_loaded = {n.id for n in ast.walk(old) if isinstance(n, ast.Name) and isinstance(n.ctx, ast.Load)}
    for n in ast.walk(new):
        if isinstance(n, ast.Name) and isinstance(n.ctx, ast.Load) and n.id not in nb and n.id not in old_loaded:
            return False            # a name nothing binds and the old file never used: introduced by another hunk
    defs = {}
    for n in ast.walk(new):
        if isinstance(n, ast.FunctionDef):
            defs.setdefault(n.name, []).append(n)
    for n in ast.walk(new):
        if isinstance(n, ast.Call) and isinstance(n.func, ast.Name) and len(defs.get(n.func.id, [])) == 1 and n.keywords:
            f = defs[n.func.id][0]
            params = {a.arg for a in f.args.args + f.args.kwonlyargs}
            if not f.args.kwarg and any(k.arg is not None and k.arg not in params for k in n.keywords):
                return False        # keyword that the (renamed) parameter list does not have
    fo, fn = _funcs(old), _funcs(new)
    for k, f in fn.items():
        if k not in fo:
            continue
        b_old, b_new = _bound(fo[k]), _bound(f)
        loads = {n.id for n in ast.walk(f) if isinstance(n, ast.Name) and isinstance(n.ctx, ast.Load)}
        if any(x in loads and x not in b_new and x not in (nb - {y for g in fn.values() for y in _bound(g)}) for x in b_old - b_new):
            return False            # a local's binding vanished but it is still read: the uses change in another hunk
    return True


def run_one(job):
    name, k, rel, src = job
    res = []
    for pid in PROPS:
        mod = importlib.import_module(f"lxs.props.{pid.lower()}")
        ctx = Ctx(pid, repo=REPO, tier="quick", overlay={rel: src})
        try:
            mod.run(ctx)
        except AnalysisError as e:
            if rel in ctx._mods:
                res.append((pid, "analysis-error", str(e)[:160]))
            continue
        except Exception as e:
            res.append((pid, "crash", f"{type(e).__name__}: {e}"[:160]))
            continue
        if rel not in ctx._mods:
            continue
        known, _ = load_known()
        for f in ctx.findings:
            if (pid, f.key) not in known:
                res.append((pid, f.rule, f"{f.scope}: {f.role}: {f.detail[:100]}"))
        vac = [r for r, n in ctx.rule_sites.items() if n < ctx.rule_min[r]]
        if vac and not res:
            res.append((pid, "vacuous", str(vac)))
    return (name, k, rel, res)


def main():
    sel = [a for a in sys.argv[1:] if not a.startswith("-")]
    jobs, skipped = [], 0
    for path in sorted(glob.glob(os.path.join(VERIF, "neutral", "*.diff"))):
        name = os.path.basename(path)[:-5]
        if sel and name not in sel:
            continue
        for k, h in enumerate(hunks(path)):
            old_src = open(os.path.join(REPO, h[0])).read()
            new_src = apply(old_src, h)
            if new_src is None or not standalone(old_src, new_src):
                skipped += 1
                continue
            jobs.append((name, k, h[0], new_src))
    with ProcessPoolExecutor(max_workers=16) as ex:
        res = list(ex.map(run_one, jobs, chunksize=2))
    bad = [r for r in res if r[3]]
    for name, k, rel, rs in bad:
        for pid, rule, txt in rs[:3]:
            print(f"{name} hunk {k} ({rel.split('/')[-1]}): {pid} {rule}: {txt}")
    print(f"neutral hunks: {len(res)} stand-alone hunks run ({skipped} skipped), {len(bad)} raise an alarm")
    return 1 if bad else 0


if __name__ == "__main__":
    sys.exit(main())
