#!/bin/sh
# usage: neutral_take.sh <prefix N|L> <nn> ...   store the delivered patch as neutral/<prefix>-Cnn.diff, remove the worktree, evaluate
cd /verif
P=$1; shift
for n in "$@"; do
  d=/tmp/wt${P}_c$n
  [ -f $d/NEUTRAL_patch.diff ] || { echo "$d: nothing delivered"; continue; }
  # take the diff from the worktree itself (the delivered file may be stale)
  git -C $d diff -- litex > neutral/$P-C$n.diff
  cp $d/NEUTRAL_check.py neutral/$P-C${n}_check.py 2>/dev/null
  cp $d/NEUTRAL_meta.json neutral/$P-C${n}_meta.json 2>/dev/null
  git -C /repo worktree remove --force $d
  W=${W:-420} tools/neutral_eval.sh $P-C$n
done
