#!/bin/sh
# usage: neutral_wt.sh [name ...]   like neutral_eval.sh but on a scratch worktree (/tmp/nwt), leaving /repo untouched
cd /verif
[ -d /tmp/nwt ] || git -C /repo worktree add --detach /tmp/nwt HEAD -q
[ $# -eq 0 ] && set -- $(ls neutral/*.diff | sed 's,neutral/,,; s,\.diff,,')
for n in "$@"; do
  git -C /tmp/nwt checkout -q -- . ; git -C /tmp/nwt apply /verif/neutral/$n.diff || { echo "$n: patch does not apply"; continue; }
  ./check all --repo /tmp/nwt > /tmp/neutral_$n.log 2>&1
  git -C /tmp/nwt checkout -q -- .
  c=$(grep -c -E "^VIOLATION|ANALYSIS-ERROR" /tmp/neutral_$n.log)
  echo "=== $n: $c alarms"
  grep -E -B1 "^VIOLATION|ERROR" /tmp/neutral_$n.log | grep -v "^--" | grep -v "^VIOLATION" | cut -c1-${W:-330}
done
