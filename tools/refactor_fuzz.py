#!/venv/bin/python
"""False-alarm fuzz with behaviour-preserving refactorings, one at a time, on the files each check reads:
  commute   swap the operands of one `&` / `|` (FHDL and Python integer/boolean expressions alike)
  alias     hoist the condition of one If(...) call into a Python local (`_c = <cond>` before the statement, `If(_c, ...)`)
  swapstmt  swap two adjacent `x.eq(...)` elements of one statement list whose targets differ and which do not read each other
Every run must stay silent.   usage: refactor_fuzz.py [Cxx ...] [--limit N] [--kind commute|alias|swapstmt]"""
import ast
import copy
import importlib
import os
import random
import sys
from concurrent.futures import ProcessPoolExecutor
sys.path.insert(0, os.path.dirname(os.path.dirname(os.path.abspath(__file__))))
from lxs.core import Ctx, AnalysisError, load_known

REPO = "/repo"


def sites(tree, kind):
    out = []
    for n in ast.walk(tree):
        if kind == "commute" and isinstance(n, ast.BinOp) and isinstance(n.op, (ast.BitAnd, ast.BitOr)):
            out.append(n)
        elif kind == "alias" and isinstance(n, (ast.AugAssign, ast.Expr)):
            v = n.value
            calls = [c for c in ast.walk(v) if isinstance(c, ast.Call) and isinstance(c.func, ast.Name) and c.func.id == "If" and c.args]
            # only conditions that mention no comprehension / lambda variable (hoisting must keep the meaning)
            for c in calls:
                bound = {x.id for p in ast.walk(v) if isinstance(p, (ast.ListComp, ast.GeneratorExp, ast.DictComp, ast.SetComp, ast.Lambda))
                         for x in ast.walk(p) if isinstance(x, ast.Name) and isinstance(x.ctx, ast.Store)}
                names = {x.id for x in ast.walk(c.args[0]) if isinstance(x, ast.Name)}
                if not (names & bound) and not any(isinstance(x, ast.Call) for x in ast.walk(c.args[0])):
                    out.append((n, c))
        elif kind == "splitlist" and isinstance(n, ast.AugAssign) and isinstance(n.value, ast.List) and len(n.value.elts) >= 2 and \
                isinstance(n.target, ast.Attribute) and n.target.attr in ("comb", "sync"):
            out.append(n)
        elif kind == "combalias" and isinstance(n, ast.AugAssign) and isinstance(n.target, ast.Attribute) and n.target.attr in ("comb", "sync") \
                and isinstance(n.target.value, ast.Name) and n.target.value.id == "self":
            v = n.value
            for c in [c for c in ast.walk(v) if isinstance(c, ast.Call) and isinstance(c.func, ast.Name) and c.func.id == "If" and c.args]:
                bound = {x.id for p in ast.walk(v) if isinstance(p, (ast.ListComp, ast.GeneratorExp, ast.DictComp, ast.SetComp, ast.Lambda))
                         for x in ast.walk(p) if isinstance(x, ast.Name) and isinstance(x.ctx, ast.Store)}
                names = {x.id for x in ast.walk(c.args[0]) if isinstance(x, ast.Name)}
                if not (names & bound) and isinstance(c.args[0], (ast.BinOp, ast.UnaryOp, ast.Compare)) and \
                        not any(isinstance(x, ast.Call) for x in ast.walk(c.args[0])):
                    out.append((n, c))
        elif kind == "demorgan" and isinstance(n, ast.UnaryOp) and isinstance(n.op, ast.Invert) and isinstance(n.operand, ast.BinOp) and \
                isinstance(n.operand.op, (ast.BitAnd, ast.BitOr)):
            out.append(n)
        elif kind == "cmpflip" and isinstance(n, ast.Compare) and len(n.ops) == 1 and isinstance(n.ops[0], (ast.Lt, ast.Gt, ast.LtE, ast.GtE)):
            out.append(n)
        elif kind == "constfold" and isinstance(n, ast.BinOp) and isinstance(n.left, ast.Constant) and isinstance(n.right, ast.Constant) and \
                isinstance(n.left.value, int) and isinstance(n.right.value, int) and isinstance(n.op, (ast.Add, ast.Sub, ast.Mult)):
            out.append(n)
        elif kind == "elif2else" and isinstance(n, ast.Call) and isinstance(n.func, ast.Attribute) and n.func.attr == "Elif" and \
                isinstance(n.func.value, ast.Call) and n.args:
            out.append(n)
        elif kind == "swapstmt" and isinstance(n, ast.List) and len(n.elts) >= 2:
            for i in range(len(n.elts) - 1):
                a, b = n.elts[i], n.elts[i + 1]
                if all(isinstance(x, ast.Call) and isinstance(x.func, ast.Attribute) and x.func.attr == "eq" and len(x.args) == 1 for x in (a, b)):
                    ta, tb = ast.unparse(a.func.value), ast.unparse(b.func.value)
                    ra, rb = ast.unparse(a.args[0]), ast.unparse(b.args[0])
                    base = lambda t: t.split("[")[0]
                    if base(ta) != base(tb) and base(ta) not in rb and base(tb) not in ra:
                        out.append((n, i))
    return out


def _replace(tree, old, new):
    for p in ast.walk(tree):
        for f, v in ast.iter_fields(p):
            if v is old:
                setattr(p, f, new)
                return True
            if isinstance(v, list):
                for i, x in enumerate(v):
                    if x is old:
                        v[i] = new
                        return True
    return False


def variant(rel, kind, idx):
    tree = ast.parse(open(os.path.join(REPO, rel)).read())
    ss = sites(tree, kind)
    if idx >= len(ss):
        return None
    s = ss[idx]
    if kind == "commute":
        s.left, s.right = s.right, s.left
    elif kind == "swapstmt":
        lst, i = s
        lst.elts[i], lst.elts[i + 1] = lst.elts[i + 1], lst.elts[i]
    elif kind == "demorgan":
        b = s.operand
        new = ast.BinOp(left=ast.UnaryOp(op=ast.Invert(), operand=b.left), op=ast.BitOr() if isinstance(b.op, ast.BitAnd) else ast.BitAnd(),
                        right=ast.UnaryOp(op=ast.Invert(), operand=b.right))
        _replace(tree, s, new)
    elif kind == "cmpflip":
        flip = {ast.Lt: ast.Gt, ast.Gt: ast.Lt, ast.LtE: ast.GtE, ast.GtE: ast.LtE}
        s.left, s.comparators[0] = s.comparators[0], s.left
        s.ops[0] = flip[type(s.ops[0])]()
    elif kind == "constfold":
        v = {ast.Add: s.left.value + s.right.value, ast.Sub: s.left.value - s.right.value, ast.Mult: s.left.value * s.right.value}[type(s.op)]
        _replace(tree, s, ast.Constant(value=v))
    elif kind == "elif2else":
        # only when nothing hangs from this Elif except at most one .Else(...)
        par = None
        for p in ast.walk(tree):
            if isinstance(p, ast.Call) and isinstance(p.func, ast.Attribute) and p.func.value is s:
                par = p
        inner = ast.Call(func=ast.Name(id="If", ctx=ast.Load()), args=list(s.args), keywords=[])
        if par is not None:
            if par.func.attr != "Else":
                return None
            inner = ast.Call(func=ast.Attribute(value=inner, attr="Else", ctx=ast.Load()), args=list(par.args), keywords=[])
            new = ast.Call(func=ast.Attribute(value=s.func.value, attr="Else", ctx=ast.Load()), args=[inner], keywords=[])
            for pp in ast.walk(tree):
                if isinstance(pp, ast.Call) and isinstance(pp.func, ast.Attribute) and pp.func.value is par:
                    return None
            _replace(tree, par, new)
        else:
            new = ast.Call(func=ast.Attribute(value=s.func.value, attr="Else", ctx=ast.Load()), args=[inner], keywords=[])
            _replace(tree, s, new)
    elif kind == "splitlist":
        stmts = [ast.AugAssign(target=copy.deepcopy(s.target), op=ast.Add(), value=e) for e in s.value.elts]
        for p in ast.walk(tree):
            for fld in ("body", "orelse", "finalbody"):
                b = getattr(p, fld, None)
                if isinstance(b, list) and any(x is s for x in b):
                    k = [j for j, x in enumerate(b) if x is s][0]
                    b[k:k + 1] = stmts
                    ast.fix_missing_locations(tree)
                    return ast.unparse(tree)
        return None
    elif kind == "combalias":
        stmt, call = s
        cond = call.args[0]
        name = "_gfz"
        call.args[0] = ast.Name(id=name, ctx=ast.Load())
        new = ast.parse(f"{name} = Signal()\nself.comb += {name}.eq(0)").body
        new[1].value.args[0] = cond
        for p in ast.walk(tree):
            for fld in ("body", "orelse", "finalbody"):
                b = getattr(p, fld, None)
                if isinstance(b, list) and any(x is stmt for x in b):
                    k = [j for j, x in enumerate(b) if x is stmt][0]
                    b[k:k] = new
                    ast.fix_missing_locations(tree)
                    return ast.unparse(tree)
        return None
    elif kind == "alias":
        stmt, call = s
        cond = call.args[0]
        name = "_cfz"
        call.args[0] = ast.Name(id=name, ctx=ast.Load())
        assign = ast.Assign(targets=[ast.Name(id=name, ctx=ast.Store())], value=cond, lineno=stmt.lineno, col_offset=stmt.col_offset)
        # insert before stmt in its parent body
        for p in ast.walk(tree):
            for fld in ("body", "orelse", "finalbody"):
                b = getattr(p, fld, None)
                if isinstance(b, list) and any(x is stmt for x in b):
                    k = [j for j, x in enumerate(b) if x is stmt][0]
                    b.insert(k, assign)
                    ast.fix_missing_locations(tree)
                    return ast.unparse(tree)
        return None
    ast.fix_missing_locations(tree)
    return ast.unparse(tree)


def run_one(job):
    pid, rel, kind, idx = job
    try:
        src = variant(rel, kind, idx)
        if src is None:
            return (job, "skip", "")
        compile(src, rel, "exec")
    except Exception as e:
        return (job, "skip", str(e))
    mod = importlib.import_module(f"lxs.props.{pid.lower()}")
    ctx = Ctx(pid, repo=REPO, tier="quick", overlay={rel: src})
    try:
        mod.run(ctx)
    except AnalysisError as e:
        return (job, "analysis-error", str(e)[:200])
    except Exception as e:
        return (job, "crash", f"{type(e).__name__}: {e}"[:200])
    known, _ = load_known()
    viols = [f for f in ctx.findings if (pid, f.key) not in known]
    vac = [r for r, n in ctx.rule_sites.items() if n < ctx.rule_min[r]]
    if viols:
        return (job, "false-alarm", f"{viols[0].rule}: {viols[0].scope}: {viols[0].role}: {viols[0].detail[:100]}")
    if vac:
        return (job, "vacuous", f"rules {vac} lost sites")
    return (job, "ok", "")


def main():
    args = [a for a in sys.argv[1:] if not a.startswith("--")]
    opt = lambda k, d=None: sys.argv[sys.argv.index(k) + 1] if k in sys.argv else d
    limit = int(opt("--limit", "0")) or None
    kinds = [opt("--kind")] if opt("--kind") else ["commute", "alias", "swapstmt", "splitlist", "combalias", "demorgan", "cmpflip", "constfold", "elif2else"]
    pids = [a for a in args if a[0] == "C"] or [f"C{i:02d}" for i in range(1, 21)]
    jobs = []
    for pid in pids:
        mod = importlib.import_module(f"lxs.props.{pid.lower()}")
        ctx = Ctx(pid, repo=REPO, tier="quick")
        mod.run(ctx)
        for rel in sorted(ctx._mods):
            tree = ast.parse(open(os.path.join(REPO, rel)).read())
            for kind in kinds:
                for i in range(len(sites(tree, kind))):
                    jobs.append((pid, rel, kind, i))
    random.Random(1).shuffle(jobs)
    if limit:
        jobs = jobs[:limit]
    with ProcessPoolExecutor(max_workers=16) as ex:
        res = list(ex.map(run_one, jobs, chunksize=8))
    by = {}
    for r in res:
        by[r[1]] = by.get(r[1], 0) + 1
    seen = set()
    for r in res:
        if r[1] not in ("ok", "skip"):
            key = (r[0][0], r[2][:80])
            if key in seen:
                continue
            seen.add(key)
            print(f"{r[1]:15s} {r[0][0]} {r[0][1]} {r[0][2]}#{r[0][3]}  {r[2]}")
    print(f"refactor fuzz: {len(res)} runs: {by}")
    return 0


if __name__ == "__main__":
    sys.exit(main())
