#!/venv/bin/python
"""False-alarm fuzz: rename one local at a time (consistently inside its class / function, AST level) and run the checks that
read that file.  A rename preserves behaviour, so every run must stay silent; prints the runs that raise an alarm or break the
analysis.   usage: rename_fuzz.py [Cxx ...] [--limit N]"""
import ast
import importlib
import json
import os
import sys
from concurrent.futures import ProcessPoolExecutor
sys.path.insert(0, os.path.dirname(os.path.dirname(os.path.abspath(__file__))))
from lxs.core import Ctx, AnalysisError, load_known
from lxs import names

REPO = "/repo"


def files_of(pid):
    """files the check of `pid` reads on the clean tree"""
    mod = importlib.import_module(f"lxs.props.{pid.lower()}")
    ctx = Ctx(pid, repo=REPO, tier="quick")
    mod.run(ctx)
    return sorted(ctx._mods)


def variant(rel, scope, name):
    src = open(os.path.join(REPO, rel)).read()
    tree = ast.parse(src)
    for sname, node in names.scopes(tree):
        if sname == scope:
            for x in ast.walk(node):
                if isinstance(x, ast.Name) and x.id == name:
                    x.id = name + "_rn"
    return ast.unparse(tree)


def run_one(job):
    pid, rel, scope, name = job
    try:
        src = variant(rel, scope, name)
        compile(src, rel, "exec")
    except Exception as e:
        return (job, "skip", str(e))
    mod = importlib.import_module(f"lxs.props.{pid.lower()}")
    ctx = Ctx(pid, repo=REPO, tier="quick", overlay={rel: src})
    try:
        mod.run(ctx)
    except AnalysisError as e:
        return (job, "analysis-error", str(e)[:200])
    except Exception as e:
        return (job, "crash", f"{type(e).__name__}: {e}"[:200])
    known, _ = load_known()
    viols = [f for f in ctx.findings if (pid, f.key) not in known]
    # vacuity
    vac = [r for r, n in ctx.rule_sites.items() if n < ctx.rule_min[r]]
    if viols:
        return (job, "false-alarm", f"{viols[0].rule}: {viols[0].role}: {viols[0].detail[:120]}")
    if vac:
        return (job, "vacuous", f"rules {vac} lost sites")
    return (job, "ok", "")


def main():
    args = [a for a in sys.argv[1:] if a.startswith("C")]
    limit = int(sys.argv[sys.argv.index("--limit") + 1]) if "--limit" in sys.argv else None
    pids = args or [f"C{i:02d}" for i in range(1, 21)]
    tab = names.table()
    jobs = []
    for pid in pids:
        for rel in files_of(pid):
            for scope, ent in tab.get(rel, {}).items():
                for name in ent:
                    jobs.append((pid, rel, scope, name))
    if limit:
        import random
        random.Random(0).shuffle(jobs)
        jobs = jobs[:limit]
    with ProcessPoolExecutor(max_workers=16) as ex:
        res = list(ex.map(run_one, jobs, chunksize=8))
    bad = [r for r in res if r[1] not in ("ok", "skip")]
    by = {}
    for r in res:
        by[r[1]] = by.get(r[1], 0) + 1
    for r in bad:
        print(f"{r[1]:15s} {r[0][0]} {r[0][1]}::{r[0][2]} `{r[0][3]}`  {r[2]}")
    print(f"rename fuzz: {len(res)} runs: {by}")
    return 1 if bad else 0


if __name__ == "__main__":
    sys.exit(main())
