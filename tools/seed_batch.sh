#!/bin/sh
# usage: seed_batch.sh <round> <nn> [<nn> ...]   confirm + check the seeds delivered in /tmp/wt<round>_c<nn>
R=$1; shift; W=$R; [ "$R" = "1" ] && W=""
for p in "$@"; do
  if [ -f /tmp/wt${W}_c$p/SEED_meta.json ]; then
    n=C$p-$R; [ "$R" = "1" ] && n=C$p
    /venv/bin/python /verif/tools/seed_eval.py confirm C$p /tmp/wt${W}_c$p $n > /tmp/confirm${R}_C$p.log 2>&1 && tail -n 1 /tmp/confirm${R}_C$p.log
  else echo "C$p: not delivered yet"; fi
done
