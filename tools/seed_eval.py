#!/venv/bin/python
"""Seeded-change bookkeeping (development aid; not part of any registered check).

  seed_eval.py confirm <Cxx> <worktree> [<name>]   confirm a sub-agent's change in its scratch worktree and keep it as
                                                   /verif/seeded/<name>/ (patch.diff, demo.py, meta.json)
  seed_eval.py check <name>|all                    apply the patch to /repo, run every quick check + the thorough check of
                                                   the property, undo it straight afterwards; record which checks fire

`confirm` runs, in the worktree (PYTHONPATH = worktree):  the demo with the patch (must fail), the demo without it (must
pass), and the pinned test-suite with the patch (every test of BASELINE.stable_pass must still pass).
"""
import json
import os
import re
import shutil
import subprocess
import sys
import xml.etree.ElementTree as ET

VERIF = os.path.dirname(os.path.dirname(os.path.abspath(__file__)))
SEEDED = os.path.join(VERIF, "seeded")
PY = "/venv/bin/python"
REPO = os.environ.get("SEED_REPO", "/repo")     # a scratch worktree of /repo HEAD may stand in (development only)


def sh(cmd, cwd=None, env=None, timeout=3600):
    e = dict(os.environ)
    e.update(env or {})
    p = subprocess.run(cmd, shell=True, cwd=cwd, env=e, stdout=subprocess.PIPE, stderr=subprocess.STDOUT, text=True, timeout=timeout)
    return p.returncode, p.stdout


def stable_pass():
    with open("/root/.vp/BASELINE.json") as f:
        return set(json.load(f)["stable_pass"])


def junit_pass(path):
    ok = set()
    for tc in ET.parse(path).getroot().iter("testcase"):
        if not any(ch.tag in ("failure", "error", "skipped") for ch in tc):
            ok.add(f"{tc.get('classname')}::{tc.get('name')}")
    return ok


def confirm(pid, wt, name=None):
    name = name or pid
    env = {"PYTHONPATH": wt}
    patch = os.path.join(wt, "SEED_patch.diff")
    demo = os.path.join(wt, "SEED_demo.py")
    assert os.path.exists(patch) and os.path.exists(demo), "deliverables missing"
    rc, out = sh("git diff --quiet -- litex", cwd=wt)
    applied = rc != 0
    if not applied:
        rc, out = sh(f"git apply {patch}", cwd=wt)
        assert rc == 0, out
    rc, out = sh(f"git diff -- litex | diff -q - {patch}", cwd=wt)
    same = rc == 0
    rc_with, out_with = sh(f"{PY} {demo}", cwd=wt, env=env)
    junit = f"/tmp/seed_{name}.xml"
    sh(f"{PY} -m pytest -q -p no:cacheprovider --timeout=900 --continue-on-collection-errors -n 12 --junitxml={junit} test/", cwd=wt, env=env)
    passed = junit_pass(junit)
    os.remove(junit)
    lost = sorted(stable_pass() - passed)
    sh(f"git apply -R {patch}", cwd=wt)
    rc, out = sh("git diff --quiet -- litex", cwd=wt)
    clean = rc == 0
    rc_wo, out_wo = sh(f"{PY} {demo}", cwd=wt, env=env)
    sh(f"git apply {patch}", cwd=wt)
    sh("rm -f sim.vcd", cwd=wt)
    res = dict(worktree_diff_equals_patch=same, demo_rc_with_patch=rc_with, demo_rc_without_patch=rc_wo, reverse_apply_clean=clean,
               baseline_tests_lost_with_patch=lost, baseline_tests_passing_with_patch=len(stable_pass() & passed))
    ok = rc_with != 0 and rc_wo == 0 and not lost and clean
    print(json.dumps(res, indent=1))
    print("demo with patch (tail):\n  " + "\n  ".join(out_with.strip().splitlines()[-4:]))
    print("demo without patch (tail):\n  " + "\n  ".join(out_wo.strip().splitlines()[-2:]))
    if not ok:
        print(f"NOT CONFIRMED: {name}")
        return 1
    d = os.path.join(SEEDED, name)
    os.makedirs(d, exist_ok=True)
    shutil.copy(patch, os.path.join(d, "patch.diff"))
    shutil.copy(demo, os.path.join(d, "demo.py"))
    meta = {}
    mp = os.path.join(wt, "SEED_meta.json")
    if os.path.exists(mp):
        try:
            with open(mp) as f:
                meta = json.load(f)
        except Exception:
            meta = {}
    meta = dict(property=pid, summary=meta.get("summary"), needs=meta.get("needs"), files=meta.get("files"), origin="independent sub-agent given only the property text",
                confirmed=dict(how="tools/seed_eval.py confirm, in a scratch worktree of /repo HEAD with PYTHONPATH=<worktree>",
                               commands=[f"{PY} SEED_demo.py   (patch applied)  -> exit {rc_with}",
                                         f"{PY} SEED_demo.py   (git apply -R)   -> exit {rc_wo}",
                                         f"{PY} -m pytest -n 12 --junitxml=.. test/   (patch applied) -> all {len(stable_pass())} pinned-baseline tests pass"],
                               **res))
    with open(os.path.join(d, "meta.json"), "w") as f:
        json.dump(meta, f, indent=1)
    print(f"CONFIRMED and kept: seeded/{name}")
    return 0


def check(name):
    d = os.path.join(SEEDED, name)
    with open(os.path.join(d, "meta.json")) as f:
        meta = json.load(f)
    pid = meta["property"]
    rc, out = sh("git status --porcelain", cwd=REPO)
    assert out.strip() == "", REPO + " not clean: " + out
    rc, out = sh(f"git apply {os.path.join(d, 'patch.diff')}", cwd=REPO)
    assert rc == 0, out
    try:
        ev = "/tmp/seed_ev" + str(os.getpid())
        rc_all, out_all = sh(f"./check all --repo {REPO} --evidence-dir {ev}", cwd=VERIF, env={"LXS_NO_REPLAY": "1"})
        rc_th, out_th = sh(f"./check {pid} --tier thorough --repo {REPO} --evidence-dir {ev}", cwd=VERIF, env={"LXS_NO_SELFTEST": "1", "LXS_NO_REPLAY": "1"})
    finally:
        sh("git checkout -- .", cwd=REPO)
        sh("rm -f sim.vcd", cwd=REPO)
        shutil.rmtree(ev, ignore_errors=True)
    fired = sorted(set(re.findall(r"VIOLATION property=(C\d\d)", out_all)))
    errs = sorted(set(re.findall(r"ANALYSIS-ERROR property=(C\d\d)", out_all)))
    th_fired = "VIOLATION" in out_th
    meta["checks"] = dict(quick_fired=fired, quick_analysis_errors=errs, thorough_fired=th_fired,
                          report=[ln.strip()[:400] for ln in (out_all + out_th).splitlines() if " rule=" in ln or "ANALYSIS-ERROR" in ln][:12],
                          caught=(pid in fired) or th_fired)
    with open(os.path.join(d, "meta.json"), "w") as f:
        json.dump(meta, f, indent=1)
    print(f"{name}: property {pid}  quick fired={fired} errors={errs} thorough_fired={th_fired}")
    for ln in meta["checks"]["report"][:6]:
        print("    " + ln[:300])
    return 0


if __name__ == "__main__":
    if sys.argv[1] == "confirm":
        sys.exit(confirm(*sys.argv[2:]))
    if sys.argv[1] == "check":
        names = sorted(os.listdir(SEEDED)) if sys.argv[2] == "all" else sys.argv[2:]
        for n in names:
            check(n)
