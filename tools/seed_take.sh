#!/bin/sh
# usage: seed_take.sh <round> <nn> ...   confirm delivered seeds, drop their worktrees, run the checks against them
# (the checks run on the scratch worktree /tmp/swt of /repo HEAD, so /repo itself stays untouched)
cd /verif
R=$1; shift
L=""
[ -d /tmp/swt ] || git -C /repo worktree add --detach /tmp/swt HEAD -q
for n in "$@"; do
  tools/seed_batch.sh $R $n 2>&1 | tail -1
  [ -d seeded/C$n-$R ] && L="$L C$n-$R"
  [ -d seeded/C$n-$R ] && git -C /repo worktree remove --force /tmp/wt${R}_c$n 2>/dev/null
done
[ -n "$L" ] && SEED_REPO=/tmp/swt /venv/bin/python tools/seed_eval.py check $L 2>&1 | grep -E "^C[0-9]+-$R"
