#!/venv/bin/python
"""Print a self-test corpus entry (lxs/mutants/cXX.py) that replays a kept seeded change in memory (development aid).

  seed_to_mutant.py <seed name> <rule> [<id suffix>]

Every hunk of seeded/<name>/patch.diff becomes one (find, replace) pair: context + removed lines -> context + added lines.
Only single-file patches; the find texts must occur exactly once in /repo's current file.
"""
import os
import re
import sys

VERIF = os.path.dirname(os.path.dirname(os.path.abspath(__file__)))


def hunks(diff):
    files = {}
    cur = None
    h = None
    for ln in diff.splitlines():
        if ln.startswith("+++ b/"):
            cur = ln[6:]
            files[cur] = []
            h = None
        elif ln.startswith("@@") and cur:
            h = ([], [])
            files[cur].append(h)
        elif h is not None and cur:
            if ln.startswith("+"):
                h[1].append(ln[1:])
            elif ln.startswith("-") and not ln.startswith("---"):
                h[0].append(ln[1:])
            elif ln.startswith(" ") or ln == "":
                h[0].append(ln[1:])
                h[1].append(ln[1:])
            elif ln.startswith("diff --git"):
                h = None
    return files


def trim(old, new):
    # drop common leading / trailing context as long as the find text stays unique (decided by the caller); keep 1 line of context
    return old, new


def main():
    name, rule = sys.argv[1], sys.argv[2]
    suffix = sys.argv[3] if len(sys.argv) > 3 else "change"
    diff = open(os.path.join(VERIF, "seeded", name, "patch.diff")).read()
    fs = hunks(diff)
    assert len(fs) == 1, f"patch touches {list(fs)}"
    (rel, hs), = fs.items()
    src = open(os.path.join("/repo", rel)).read()
    edits = []
    for old, new in hs:
        # shrink context while unique
        while len(old) > 1 and len(new) > 1 and old[0] == new[0] and src.count("\n".join(old[1:]) + "\n") == 1:
            old, new = old[1:], new[1:]
        while len(old) > 1 and len(new) > 1 and old[-1] == new[-1] and src.count("\n".join(old[:-1]) + "\n") == 1:
            old, new = old[:-1], new[:-1]
        f = "\n".join(old) + "\n"
        r = "\n".join(new) + "\n"
        assert src.count(f) == 1, (src.count(f), f)
        edits.append((f, r))
    pid = re.match(r"(C\d\d)", name).group(1)
    rnd = name.split("-")[1] if "-" in name else "1"
    print(f'    # seeded round {rnd}: {name}')
    print(f'    dict(id="{pid}-seeded{rnd}-{suffix}", file="{rel}", expect="violation", rule="{rule}",')
    print(f'         edits={edits!r}),')


if __name__ == "__main__":
    main()
